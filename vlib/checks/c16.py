"""C16 — promise jobs run in spec FIFO order; results do not depend on scheduling.

For every generated program P (vlib/gen_async.py: every callback prints a unique tag, so the trace IS the job
order) the records of these executions are compared:

  family S (the whole program is evaluated, then the queue is drained)
    base         eval(P); run_jobs; eval(F)                                   F = final-state expression
    async(b)     evaluate_async_with_budget(b) polled to completion; run_jobs_async; eval(F)
                 b from {1,2,3,5,8,13,...,832040,2^20} and seeded log-uniform random budgets
    split        P cut at statement boundaries into 2..4 scripts, all evaluated, THEN run_jobs twice
    rep          run_jobs; eval(P); run_jobs x3        (draining an empty queue is a no-op, before and after)
    split_async  the cut scripts through evaluate_async with different budgets; run_jobs_async; run_jobs
    v8           the same single script on V8 (node drains microtasks after the evaluation)
  family P (jobs drained between scripts; a different but equally determined semantics)
    phased        eval(c1); run_jobs; eval(c2); run_jobs; ...     } all three equal, including the trace
    phased_async  the same through evaluate_async / run_jobs_async } position after every drain
    v8 phased     the same scripts evaluated one after the other on V8 (drains after each)

All records of a family must be equal (trace, completion value of P, of F, of every cut script in family P).
Invariants inside the observed traces (boa, family S): an `r`/`s` tag appears at most once; no `r`/`q` tag before
`sync-end`; the evaluation step's output ends exactly with `sync-end` (no job ran inside the evaluation, no
synchronous code was deferred); a second run_jobs prints nothing; every run_jobs returns normally.

A budget run whose evaluation never yielded (`yields` = 0) is counted as trivial.
Candidates are confirmed alone and reduced (vlib/reduce.py) before being reported.

Findings: /verif/known/c16_findings.json.  Every entry's exact reproducer is replayed on every run (open: reported as
KNOWN-FINDING while it fails the recorded way; fixed: a regression test).  The V8-compared stream keeps out the shapes
named by gen_async.AVOID_DOC (today only a spec change newer than V8 11.3); a second, smaller stream without the flags is
compared boa-vs-boa across the schedules only.
"""
import json
import os
import re

from .. import core, diffrun, gen_async, reduce as reducer
from ..core import norm_hash
from ..rng import Rng

VERIF = core.VERIF
KNOWN_PATH = os.path.join(VERIF, "known", "c16_findings.json")

FIB = [1, 2, 3, 5, 8, 13, 21, 34, 55, 89, 144, 233, 377, 610, 987, 1597, 2584, 4181, 6765, 10946, 17711, 28657, 46368,
       75025, 121393, 196418, 317811, 514229, 832040, 1 << 20]
CUT = "'#cut';"
CUT_RE = re.compile(r"'#cut'\s*;?")
TAG_RE = re.compile(r"^([rqsx])(\d+)\b")

J = {"op": "jobs"}
JA = {"op": "jobs_async"}


def ev(src):
    return {"op": "eval", "src": src}


def eva(src, b):
    return {"op": "eval_async", "src": src, "budget": int(b)}


def chunks_of(src):
    parts = [p for p in CUT_RE.split(src) if p.strip()]
    return parts or [""]


def strip_cuts(src):
    return CUT_RE.sub("", src)


def with_cuts(stmts, cuts):
    """statement list -> one text with cut markers before the statements whose index is in cuts"""
    out = []
    for i, s in enumerate(stmts):
        if i in cuts:
            out.append(CUT)
        out.append(s)
    return "\n".join(out)


def steps_for(kind, src, par):
    """the harness steps of schedule `kind` for the (cut-marked) source"""
    final = par.get("final", gen_async.FINAL)
    whole = strip_cuts(src)
    bs = par.get("budgets") or [256]
    if kind in ("base", "v8"):
        return [ev(whole), J, ev(final)]
    if kind == "async":
        return [eva(whole, bs[0]), JA, ev(final)]
    if kind == "rep":
        return [J, ev(whole), J, J, J, ev(final)]
    ch = chunks_of(src)
    if kind == "split":
        return [ev(c) for c in ch] + [J, J, ev(final)]
    if kind == "split_async":
        return [eva(c, bs[i % len(bs)]) for i, c in enumerate(ch)] + [JA, J, ev(final)]
    if kind == "phased":
        st = []
        for c in ch:
            st += [ev(c), J]
        return st + [ev(final)]
    if kind == "phased_async":
        st = []
        for i, c in enumerate(ch):
            st += [eva(c, bs[i % len(bs)]), JA]
        return st + [ev(final)]
    raise ValueError(kind)


FAMILY_S = ("base", "async", "rep", "split", "split_async")
FAMILY_P = ("phased", "phased_async")


def usable(res):
    """None if the result can be compared, else the reason (inconclusive) or 'internal:...'"""
    cl = diffrun.classify(res)
    return None if cl == "ok" else cl


def summary_s(steps, res):
    """comparable record of a family-S execution + the list of invariant breaches seen in it"""
    st = res["steps"]
    trace = res.get("trace") or []
    evals = [i for i, s in enumerate(steps) if s["op"] in ("eval", "eval_async")]
    prog, fin = evals[:-1], evals[-1]
    bad = []
    for i in prog[:-1]:
        if not st[i]["c"].startswith("value:"):
            bad.append("sync-abrupt-chunk")  # not an invariant breach: the schedules are not comparable
    p = st[prog[-1]]["c"]
    sync_len = st[prog[-1]]["t"][1]
    breaches = []
    jobs_seen = 0
    for i, s in enumerate(steps):
        if s["op"] in ("jobs", "jobs_async"):
            if st[i]["c"] != "value:undefined":
                breaches.append("run_jobs returned %s" % st[i]["c"])
            first_after_prog = i > prog[-1] and jobs_seen == 0
            if i > prog[-1]:
                jobs_seen += 1
            if not first_after_prog and st[i]["t"][0] != st[i]["t"][1]:
                breaches.append("a run_jobs call on a drained queue printed %r" % trace[st[i]["t"][0]:st[i]["t"][1]][:3])
    if st[fin]["t"][0] != st[fin]["t"][1]:
        breaches.append("the final-state expression printed something")
    return {"trace": trace, "p": p, "f": st[fin]["c"], "sync_len": sync_len, "skip": bad}, breaches


def trace_invariants(trace, sync_len, p_completion):
    """invariants of a single-script trace: tags, sync-end marker"""
    out = []
    seen = {}
    try:
        k_end = trace.index("sync-end")
    except ValueError:
        k_end = None
    if p_completion.startswith("value:"):
        if k_end is None:
            out.append("the script completed normally but `sync-end` was never printed")
        elif sync_len != k_end + 1:
            out.append("the evaluation step printed %d lines but `sync-end` is line %d: %s" % (
                sync_len, k_end + 1, "a job ran inside the evaluation" if sync_len > k_end + 1 else "synchronous output appeared after the evaluation returned"))
    for i, line in enumerate(trace):
        m = TAG_RE.match(line)
        if not m:
            continue
        t = m.group(1) + m.group(2)
        if m.group(1) in "rs":
            if t in seen:
                out.append("callback %s ran twice (trace lines %d and %d)" % (t, seen[t], i))
            seen[t] = i
        if m.group(1) in "rq" and k_end is not None and i < k_end:
            out.append("reaction %s ran synchronously, before `sync-end` (line %d)" % (t, i))
    return out


def summary_p(steps, res):
    st = res["steps"]
    evals = [i for i, s in enumerate(steps) if s["op"] in ("eval", "eval_async")]
    cs = []
    for i, s in enumerate(st):
        c = s["c"]
        # the completion VALUE of a cut script that does not end in an expression statement is the subject of the open
        # finding C01-K1 (`1; var x = 2` gives undefined in boa): only normal/abrupt is compared there
        if i in evals[:-2] and c.startswith("value:"):
            c = "value"
        cs.append(c)
    return {"trace": res.get("trace") or [], "c": cs,
            "marks": [st[i]["t"][1] for i, s in enumerate(steps) if s["op"] in ("jobs", "jobs_async")]}


def diff_text(a, b, la="A", lb="B"):
    out = []
    for k in a:
        if k in ("skip",) or k not in b:
            continue
        if a[k] != b[k]:
            if k == "trace":
                ta, tb = a[k], b[k]
                i = 0
                while i < min(len(ta), len(tb)) and ta[i] == tb[i]:
                    i += 1
                out.append("trace differs at line %d: %s=%r %s=%r (lengths %d/%d; before: %r)" % (
                    i, la, ta[i] if i < len(ta) else None, lb, tb[i] if i < len(tb) else None, len(ta), len(tb), ta[max(0, i - 3):i]))
            else:
                out.append("%s: %s=%s %s=%s" % (k, la, str(a[k])[:120], lb, str(b[k])[:120]))
    return "; ".join(out)[:900]


def eq_s(a, b, with_sync=True):
    return a["trace"] == b["trace"] and a["p"] == b["p"] and a["f"] == b["f"] and (not with_sync or a["sync_len"] == b["sync_len"])


def eq_p(a, b):
    return a["trace"] == b["trace"] and a["c"] == b["c"] and a["marks"] == b["marks"]


def node_job(steps):
    return {"steps": steps}


def load_known():
    try:
        with open(KNOWN_PATH) as f:
            return json.load(f)
    except FileNotFoundError:
        return []


# ------------------------------------------------------------------ reduction
class Runner:
    """builds, runs and compares schedules for sources; used by the main loop, by confirmation and by reduction"""

    def __init__(self, eng):
        self.eng = eng

    def run_pairs(self, items):
        """items: list of (src_with_cuts, kind_a, kind_b, par). Returns list of verdict strings:
        None = not comparable, '' = equal, text = difference"""
        boa_jobs, node_jobs, plan = [], [], []
        for (src, ka, kb, par) in items:
            sa = steps_for(ka, src, par)
            ia = len(boa_jobs)
            boa_jobs.append({"steps": sa})
            if kb.startswith("v8"):
                sb = steps_for("phased" if kb == "v8_phased" else "base", src, par)
                ib = len(node_jobs)
                node_jobs.append(node_job(sb))
            else:
                sb = steps_for(kb, src, par)
                ib = len(boa_jobs)
                boa_jobs.append({"steps": sb})
            plan.append((ka, kb, sa, sb, ia, ib))
        rb = self.eng.boa(boa_jobs, shards=min(16, max(1, len(boa_jobs) // 6)), timeout=15) if boa_jobs else []
        rn = self.eng.node(node_jobs) if node_jobs else []
        out = []
        for (ka, kb, sa, sb, ia, ib) in plan:
            out.append(self.verdict(ka, kb, sa, sb, rb[ia], rn[ib] if kb.startswith("v8") else rb[ib]))
        return out

    @staticmethod
    def verdict(ka, kb, sa, sb, xa, xb):
        ua = usable(xa)
        if ua:
            return ("internal failure in schedule %s: %s" % (ka, ua)) if ua.startswith("internal") else None
        if kb.startswith("v8"):
            if not diffrun.node_usable(xb) or any(s["c"].startswith("early") for s in xb["steps"]):
                return None
        else:
            ub = usable(xb)
            if ub:
                return ("internal failure in schedule %s: %s" % (kb, ub)) if ub.startswith("internal") else None
        if any(s["c"].startswith("early") for s in xa["steps"]) or any(s["c"].startswith("early") for s in xb["steps"]):
            return None
        if ka in FAMILY_P:
            a, b = summary_p(sa, xa), summary_p(sb, xb)
            return "" if eq_p(a, b) else diff_text(a, b, ka, kb)
        a, _ = summary_s(sa, xa)
        b, _ = summary_s(sb, xb)
        if a["skip"] or b["skip"] or not a["p"].startswith("value:") or not b["p"].startswith("value:"):
            # a script that ends abruptly: cutting it changes what runs, so only whole-script schedules compare
            if "split" in ka or "split" in kb:
                return None
        ok = eq_s(a, b, with_sync=not kb.startswith("v8"))
        if ok:
            return ""
        if kb.startswith("v8"):
            a = dict(a)
            a.pop("sync_len")
        return diff_text(a, b, ka, kb)

    @staticmethod
    def kind_of(v):
        """internal | trace | completion (a reduction must keep the kind of difference it started from)"""
        if not v:
            return None
        if v.startswith("internal failure"):
            return "internal"
        return "trace" if "trace differs" in v else "completion"

    def reduce(self, src, ka, kb, par, budget_s=75):
        want = self.kind_of(self.run_pairs([(src, ka, kb, par)])[0])

        def pinned(s):
            # a completion-value difference is only meaningful while the script still ends in its final expression
            # statement (otherwise the reduction drifts to the open finding C01-K1, completion value after a declaration)
            return want != "completion" or strip_cuts(s).rstrip().rstrip(";").replace(" ", "").endswith("'done:'+n")

        def batch(srcs):
            vs = self.run_pairs([(s, ka, kb, par) for s in srcs])
            return [self.kind_of(v) is not None and self.kind_of(v) == want and pinned(s) for v, s in zip(vs, srcs)]
        return reducer.reduce(src, batch, budget_s=budget_s)


# ------------------------------------------------------------------ known findings
def replay_known(chk, rn):
    """open entries: still failing the recorded way -> KNOWN-FINDING, differently -> violation, not failing -> nothing;
    fixed entries are regression tests: their reproducer must agree with the reference again"""
    for e in load_known():
        status = e.get("status")
        rep = e.get("reproducer")
        if status not in ("open", "fixed") or not rep:
            continue
        src, ka, kb = rep["src"], rep.get("schedule", "base"), rep.get("against", "v8")
        par = rep.get("par", {})
        sa = steps_for(ka, src, par)
        xb_steps = steps_for("phased" if kb == "v8_phased" else ("base" if kb.startswith("v8") else kb), src, par)
        xa = rn.eng.boa([{"steps": sa}], shards=1)[0]
        xb = rn.eng.node([node_job(xb_steps)])[0] if kb.startswith("v8") else rn.eng.boa([{"steps": xb_steps}], shards=1)[0]
        v = rn.verdict(ka, kb, sa, xb_steps, xa, xb)
        if v is None:
            chk.inconc("known-replay:not-comparable")
            continue
        if v == "":
            continue  # not failing (any more)
        got = xa.get("trace")
        if status == "fixed":
            chk.violation("finding %s (fixed in %s) is back: %s" % (e["id"], e.get("commit"), v), {"kind": "pair", "src": src, "a": ka, "b": kb, "par": par})
        elif rep.get("observed_trace") is None or got == rep["observed_trace"]:
            chk.known_finding(e, "%s - %s: boa prints %s, spec order (and V8) %s" % (e["id"], e["title"], got, (xb.get("trace") if isinstance(xb, dict) else None)))
        else:
            chk.violation("known finding %s now fails differently: %s" % (e["id"], v), {"kind": "pair", "src": src, "a": ka, "b": kb, "par": par})


# ------------------------------------------------------------------ main
def log_budget(rng):
    """log-uniform in [1, 2^20]"""
    e = rng.below(21)
    lo = 1 << e
    return min(1 << 20, lo + rng.below(lo))


class Stats:
    def __init__(self):
        self.feats = {}
        self.comparisons = {}
        self.budgets = {}
        self.drain_yields = {}
        self.async_yielding = 0
        self.async_trivial = 0
        self.evaluations = 0
        self.distinct = set()
        self.samples = []
        self.candidates = []   # (program index, stream, kind_a, kind_b, src_with_cuts, par, what)
        self.max_yields = 0

    def bump(self, d, k, n=1):
        d[k] = d.get(k, 0) + n


def plan_for(p, i, rd, rng, thorough):
    """the boa schedules of one program for round rd: list of (kind, src_with_cuts, par); and the two cut sources"""
    m = len(p.stmts)
    r = rng
    cuts = set(r.sample(list(range(1, m)), min(r.range(1, 3), m - 1)))
    cuts_p = set(r.sample(list(range(1, m)), min(r.range(1, 3), m - 1)))
    src_s = with_cuts(p.stmts, cuts)
    src_p = with_cuts(p.stmts, cuts_p)
    fibb = FIB[(i + rd * 7) % len(FIB)] if r.chance(0.5) else r.choice(FIB[:12])
    rndb = log_budget(r)
    if p.spin:
        # the busy loop costs about 45 units per round: budgets up to that expire inside the script
        big = [b for b in FIB if 200 <= b <= 40 * p.spin]
        fibb = r.choice(big)
        rndb = min(rndb, 40 * p.spin) if r.chance(0.5) else r.range(big[0], big[-1])
    three = lambda: {"budgets": [r.choice(FIB[:10]), log_budget(r), r.choice(FIB[:6])]}
    plan = []
    if rd == 0:
        plan.append(("base", src_s, {}))
    plan.append(("async", src_s, {"budgets": [fibb]}))
    plan.append(("async", src_s, {"budgets": [rndb]}))
    for k3 in (["split", "rep", "split_async"] if thorough else [("split", "rep", "split_async")[(i + rd) % 3]]):
        plan.append((k3, src_s, three()))
    plan.append(("phased", src_p, {}))
    plan.append(("phased_async", src_p, three()))
    return plan, src_s, src_p


def account_async(stt, kind, steps, res, par):
    ys = [st.get("yields", 0) for st, sp in zip(res["steps"], steps) if sp["op"] == "eval_async"]
    for st, sp in zip(res["steps"], steps):
        if sp["op"] == "jobs_async":
            y = st.get("yields", 0)
            stt.bump(stt.drain_yields, "0" if y == 0 else "1" if y == 1 else "2-9" if y < 10 else "10+")
    if sum(ys) > 0:
        stt.async_yielding += 1
    else:
        stt.async_trivial += 1
    stt.max_yields = max([stt.max_yields] + ys)
    for b, y in zip((par.get("budgets") or [256]) * 4, ys):
        stt.bump(stt.budgets, "2^%02d%s" % (int(b).bit_length() - 1, "" if y else " (no yield)"))


def explore(chk, eng, seed, n_main, n_free, rounds, thorough, stt, first=0):
    avoid = frozenset(gen_async.AVOID_DOC)
    rng0 = Rng(seed, "c16-sched")
    total = n_main + n_free
    CH = 1200 if rounds == 1 else 400
    for start in range(0, total, CH):
        progs = []
        for k in range(start, min(total, start + CH)):
            free = k >= n_main
            i = first + k
            p = gen_async.generate(seed, i, avoid=frozenset() if free else avoid)
            progs.append((i, free, p))
            for f, v in p.features.items():
                stt.bump(stt.feats, f, v)
        boa_jobs, meta, node_jobs, nmeta = [], [], [], []
        for pi, (i, free, p) in enumerate(progs):
            for rd in range(rounds):
                plan, src_s, src_p = plan_for(p, i, rd, Rng(seed, "c16-plan", i, rd), thorough)
                for (kind, src, par) in plan:
                    boa_jobs.append({"steps": steps_for(kind, src, par)})
                    meta.append((pi, kind, src, par, rd))
                if not free and eng.pool:
                    if rd == 0:
                        node_jobs.append(node_job(steps_for("base", src_s, {})))
                        nmeta.append((pi, "v8", src_s, rd))
                    node_jobs.append(node_job(steps_for("phased", src_p, {})))
                    nmeta.append((pi, "v8_phased", src_p, rd))
        rb = eng.boa(boa_jobs, timeout=20)
        rnode = eng.node(node_jobs) if node_jobs else []
        stt.evaluations += len(boa_jobs)
        per, pern = {}, {}
        for (pi, kind, src, par, rd), res in zip(meta, rb):
            per.setdefault(pi, []).append((kind, src, par, rd, res))
        for (pi, nk, nsrc, rd), res in zip(nmeta, rnode):
            pern.setdefault(pi, []).append((nk, nsrc, rd, res))
        for pi, (i, free, p) in enumerate(progs):
            judge_program(chk, stt, i, "free" if free else "main", p, per.get(pi, []), pern.get(pi, []))


def judge_program(chk, stt, i, stream, p, runs, nruns):
    def cand(ka, kb, src, par, what):
        stt.candidates.append((i, stream, ka, kb, src, par, what))

    def check_usable(kind, src, par, res, partner):
        u = usable(res)
        if not u:
            return True
        if u.startswith("internal"):
            cand(kind, kind, src, par, "internal failure in schedule %s: %s" % (kind, u))
        else:
            chk.inconc("%s:%s" % (kind, u[:40]))
        return False

    base = next((x for x in runs if x[0] == "base"), None)
    if base is None:
        return
    if not check_usable("base", base[1], {}, base[4], None):
        return
    bsteps = steps_for("base", base[1], {})
    bsum, breaches = summary_s(bsteps, base[4])
    breaches += trace_invariants(bsum["trace"], bsum["sync_len"], bsum["p"])
    if breaches:
        cand("base", "inv", base[1], {}, "invariant: " + "; ".join(breaches[:3]))
        return
    all_ok, compared = True, 0
    # ---- family S against base
    for (kind, src, par, rd, res) in runs:
        if kind in FAMILY_P or kind == "base":
            continue
        if not check_usable(kind, src, par, res, "base"):
            all_ok = False
            continue
        steps = steps_for(kind, src, par)
        s, br = summary_s(steps, res)
        if "async" in kind:
            account_async(stt, kind, steps, res, par)
        if br:
            cand(kind, "inv", src, par, "invariant: " + "; ".join(br[:3]))
            all_ok = False
            continue
        if (s["skip"] or not bsum["p"].startswith("value:")) and "split" in kind:
            chk.inconc("sync-abrupt-script-not-cut")
            continue
        compared += 1
        stt.bump(stt.comparisons, kind + "~base")
        if not eq_s(s, bsum):
            cand(kind, "base", src, par, diff_text(s, bsum, kind, "base"))
            all_ok = False
    # ---- family P: per round phased == phased_async == v8 phased
    by_rd = {}
    for (kind, src, par, rd, res) in runs:
        if kind in FAMILY_P:
            by_rd.setdefault(rd, {})[kind] = (src, par, res)
    for rd, d in sorted(by_rd.items()):
        if "phased" not in d:
            continue
        src, par, res = d["phased"]
        if not check_usable("phased", src, par, res, None):
            all_ok = False
            continue
        psteps = steps_for("phased", src, par)
        ps = summary_p(psteps, res)
        if "phased_async" in d:
            src2, par2, res2 = d["phased_async"]
            if check_usable("phased_async", src2, par2, res2, "phased"):
                steps2 = steps_for("phased_async", src2, par2)
                account_async(stt, "phased_async", steps2, res2, par2)
                compared += 1
                stt.bump(stt.comparisons, "phased_async~phased")
                ps2 = summary_p(steps2, res2)
                if not eq_p(ps2, ps):
                    cand("phased_async", "phased", src2, par2, diff_text(ps2, ps, "phased_async", "phased"))
                    all_ok = False
            else:
                all_ok = False
        for (nk, nsrc, nrd, nres) in nruns:
            if nk != "v8_phased" or nrd != rd:
                continue
            if not diffrun.node_usable(nres):
                chk.inconc("reference:" + str(nres.get("fatal") or "timeout")[:30])
                continue
            compared += 1
            stt.bump(stt.comparisons, "phased~v8")
            ns = summary_p(psteps, nres)
            if not eq_p(ps, ns):
                cand("phased", "v8_phased", src, par, diff_text(ps, ns, "phased", "v8"))
                all_ok = False
    # ---- V8, single script
    for (nk, nsrc, nrd, nres) in nruns:
        if nk != "v8":
            continue
        if not diffrun.node_usable(nres):
            chk.inconc("reference:" + str(nres.get("fatal") or "timeout")[:30])
            continue
        ns, _ = summary_s(bsteps, nres)
        compared += 1
        stt.bump(stt.comparisons, "base~v8")
        if not eq_s(bsum, ns, with_sync=False):
            a = dict(bsum)
            a.pop("sync_len")
            cand("base", "v8", base[1], {}, diff_text(a, ns, "boa", "v8"))
            all_ok = False
    tr = bsum["trace"]
    after = len(tr) - bsum["sync_len"]
    if all_ok and compared >= 3 and after >= 3:
        stt.distinct.add(norm_hash(p.src))
        if len(stt.samples) < 3:
            stt.samples.append({"program": p.src[:700], "trace_head": tr[:25], "lines_printed_by_jobs": after})


def report(chk, eng, rn, stt, limit=4):
    reported = 0
    seen_red = set()
    for (i, stream, ka, kb, src, par, what) in stt.candidates:
        if reported >= limit:
            chk.inconc("further-candidates-not-reduced")
            continue
        if kb == "inv":
            # invariant breach inside one execution: confirm alone
            steps = steps_for(ka, src, par)
            res = eng.boa([{"steps": steps}], shards=1)[0]
            if usable(res):
                chk.inconc("invariant-candidate-not-reproduced")
                continue
            s, br = summary_s(steps, res)
            if ka in ("base", "async", "rep"):
                br += trace_invariants(s["trace"], s["sync_len"], s["p"])
            if not br:
                chk.inconc("invariant-candidate-not-reproduced")
                continue
            chk.violation("schedule %s of program %d: %s" % (ka, i, "; ".join(br[:3])),
                          {"kind": "invariant", "src": src, "a": ka, "par": par, "trace": s["trace"][:200]})
            reported += 1
            continue
        if ka == kb:
            # internal failure (panic / crash) of a single schedule
            res = eng.boa([{"steps": steps_for(ka, src, par)}], shards=1)[0]
            u = usable(res)
            if not (u and u.startswith("internal")):
                chk.inconc("internal-failure-not-reproduced")
                continue
            kb2 = "base" if ka != "base" else "async"
            par2 = par if par else {"budgets": [3]}
            red = rn.reduce(src, ka, kb2, par2)
            chk.violation("schedule %s fails internally on `%s`: %s" % (ka, red[:400], u[:300]),
                          {"kind": "pair", "src": src, "reduced": red, "a": ka, "b": kb2, "par": par2})
            reported += 1
            continue
        v = rn.run_pairs([(src, ka, kb, par)])[0]
        if not v:
            chk.inconc("candidate-not-reproduced-alone")
            continue
        red = rn.reduce(src, ka, kb, par)
        h = norm_hash(strip_cuts(red) + ka + kb)
        if h in seen_red:
            continue
        seen_red.add(h)
        v2 = rn.run_pairs([(red, ka, kb, par)])[0] or v
        chk.violation("schedules %s and %s disagree (par %s) on `%s`: %s" % (ka, kb, json.dumps(par), red[:500], v2),
                      {"kind": "pair", "src": src, "reduced": red, "a": ka, "b": kb, "par": par, "stream": stream})
        reported += 1


def run(tier, seed):
    chk = core.Check("C16", tier, seed)
    thorough = tier == "thorough"
    n_main, n_free, rounds = (6750, 750, 3) if thorough else (2250, 250, 1)
    scale = float(os.environ.get("C16_SCALE", "1") or 1)   # development knob (smoke-testing a tier); evidence records the real counts
    if scale != 1:
        n_main, n_free = max(20, int(n_main * scale)), max(5, int(n_free * scale))
    eng = diffrun.Engines(tag="c16")
    rn = Runner(eng)
    stt = Stats()
    try:
        if not eng.pool:
            chk.inconc("reference-engine-unavailable")
        explore(chk, eng, seed, n_main, n_free, rounds, thorough, stt)
        report(chk, eng, rn, stt)
        replay_known(chk, rn)
        chk.assumptions = [
            "V8 (node 20, V8 11.3) stands in for the spec order; where V8 11.3 predates a spec change that boa follows, or an open finding lives, "
            "the shape is kept out of the V8-compared stream: " + "; ".join("%s: %s" % kv for kv in sorted(gen_async.AVOID_DOC.items())),
            "the harness polls the evaluation future in a tight loop with a no-op waker: the budget is the only scheduling parameter that can be varied; "
            "job-level events are observed from inside the program (a unique tag per callback), not at the JobExecutor boundary",
            "promise jobs themselves run through the synchronous dispatch table in every schedule (SimpleJobExecutor::run_jobs_async calls job.call): "
            "the budgeted table only runs the script body and the functions it calls directly",
        ]
        return chk.finish(
            evaluations=stt.evaluations,
            distinct_nontrivial=len(stt.distinct),
            rule="program from gen_async (seeded; unique tag per callback) run under base / async(budget) x2 / split|rep|split_async / phased / phased_async on boa "
                 "and as single script + phased scripts on V8; non-trivial = jobs printed at least 3 lines after `sync-end`, at least 3 schedule comparisons were "
                 "conclusive and all agreed; distinct by source hash. A budgeted run whose evaluation never yielded is counted under async_runs_without_yield only.",
            samples=stt.samples,
            extra={"exhaustive": False, "programs": n_main + n_free, "programs_without_v8_oracle": n_free, "schedule_rounds_per_program": rounds,
                   "feature_counts": dict(sorted(stt.feats.items())), "comparisons": stt.comparisons,
                   "async_runs_with_yields": stt.async_yielding, "async_runs_without_yield": stt.async_trivial, "max_yields_in_one_evaluation": stt.max_yields,
                   "budget_histogram_log2": dict(sorted(stt.budgets.items())), "run_jobs_async_yields": stt.drain_yields, "candidates": len(stt.candidates)},
            min_nontrivial=int((2000 if thorough else 300) * min(1.0, scale)))
    finally:
        eng.close()


def replay(path, seed):
    with open(path) as f:
        rep = json.load(f)
    eng = diffrun.Engines(tag="c16r")
    rn = Runner(eng)
    try:
        src = rep.get("reduced") or rep["src"]
        ka, par = rep.get("a", "base"), rep.get("par", {})
        if rep.get("kind") == "invariant":
            steps = steps_for(ka, src, par)
            res = eng.boa([{"steps": steps}], shards=1)[0]
            print("boa:", json.dumps(res.get("steps"))[:1500], res.get("trace"), res.get("fatal"))
            if usable(res):
                return 2
            s, br = summary_s(steps, res)
            br += trace_invariants(s["trace"], s["sync_len"], s["p"])
            if br:
                print("VIOLATION property=C16 replay=%s" % path)
                print("  " + "; ".join(br))
                return 1
            return 0
        kb = rep.get("b", "v8")
        v = rn.run_pairs([(src, ka, kb, par)])[0]
        print("schedules %s vs %s: %s" % (ka, kb, "not comparable" if v is None else (v or "equal")))
        if v:
            print("VIOLATION property=C16 replay=%s" % path)
            return 1
        return 0 if v == "" else 2
    finally:
        eng.close()
