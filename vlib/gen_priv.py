"""`priv` profile (C02, C19): small class programs with private names in every syntactic position.

The early errors for private names (AllPrivateIdentifiersValid, `delete` of a private reference, duplicate
declarations) are what keeps the byte compiler and the VM from ever meeting a private name they cannot
resolve (`.expect("private name must be in environment")`, `unreachable!` in the compiler). Each program
puts one *use* of `#x` at one *place* of a class with one *declaration* form; every outcome except an
internal failure is acceptable, so the programs need no oracle."""
from .rng import Rng

USES = [
    "O.#x", "O?.#x", "O.#x = 1", "O.#x += 1", "O.#x++", "--O.#x", "#x in O", "delete O.#x", "delete O?.#x", "delete O?.a.#x", "delete (O.#x)", "O.#x()", "O?.#x()",
    "O.#x?.()", "O.#x`t`", "({a: O.#x} = {a: 1})", "[O.#x] = [1]", "[...O.#x] = [1]", "({...O.#x} = {})", "new O.#x", "new O.#x()", "O.#x?.y", "O?.a.#x", "O?.[0].#x",
    "typeof O.#x", "void O.#x", "O.#x ??= 1", "O.#x ||= 1", "O.#x &&= 1", "O.#x **= 2", "({...O}).#x", "(() => O.#x)()", "(function(){ return O.#x }).call(O)",
    "eval('O.#x')", "(0, eval)('O.#x')", "O.#x.#x", "O.#y", "#y in O", "O.#x in O", "#x in #x in O", "super.#x", "O.#constructor", "O?.#x.y.z", "O.#x[0]", "O[O.#x]",
    "`${O.#x}`", "(O.#x, O.#x)", "O.#x ? 1 : 2", "async () => await O.#x", "function*(){ yield O.#x }", "class I extends (O.#x) {}", "class I { [O.#x]; }",
    "class I { #x; m(){ return O.#x } }", "class I { static { O.#x } }", "new (class { #x = O.#x })", "O.#x = class { #x }", "Function('return O.#x')()",
]
FOR_USES = ["for (O.#x of [1]) ;", "for (O.#x in {a: 1}) ;", "for (const k of [O.#x]) ;", "for (;;) { O.#x; break; }", "with (O) { #x in O }", "try { throw 1 } catch ({a = O.#x}) {}",
            "switch (O.#x) { case O.#x: }", "label: { if (#x in O) break label; }"]
DECLS = ["#x;", "#x = 1;", "static #x = 1;", "#x() { return 1 }", "static #x() { return 1 }", "get #x() { return 1 }", "set #x(v) {}", "get #x() { return 1 } set #x(v) {}",
         "static get #x() { return 1 }", "async #x() {}", "*#x() {}", "static async *#x() {}", "#x; #x;", "#x; get #x() {}", "get #x() {} get #x() {}", "static #x; #x;", "#x = this.#x;",
         "#x = () => this.#x;", "", "#z;", "static #x = C;", "#x = function(){ return this.#x };", "accessor_like = 1; #x = 2;"]
PLACES = [
    "class C extends (USE, Object) { DECL }",
    "class C extends (() => USE) { DECL }",
    "class C extends class { static f = () => USE } { DECL }",
    "class C { DECL [(USE, 'k')]() {} }",
    "class C { DECL static [(USE, 'k')] = 1; }",
    "class C { DECL f = USE; }",
    "class C { DECL static f = USE; }",
    "class C { DECL static { USE; } }",
    "class C { DECL m() { return USE; } }",
    "class C { DECL static m() { return USE; } }",
    "class C { DECL get g() { return USE; } }",
    "class C { DECL constructor(a = USE) {} }",
    "class C { DECL constructor() { USE; } }",
    "class C { DECL m() { class D { n() { return USE; } } return new D().n(); } }",
    "class C { DECL m() { class D extends (USE, Object) {} return D; } }",
    "class C { DECL m() { class D { #x; n() { return USE; } } return new D().n(); } }",
    "class C { DECL m() { return () => { return USE; }; } }",
    "class C { DECL m() { return function () { return USE; }; } }",
    "class C { DECL async m() { return USE; } }",
    "class C { DECL *m() { yield USE; } }",
    "class C { DECL m() { STMT } }",
    "class C { DECL static { STMT } }",
    "class C { DECL } USE;",
    "class C { DECL } function outside(O) { return USE; }",
    "var E = class { DECL m() { return USE; } }; var C = E;",
    "class C { DECL m(O) { return USE; } }",
    "class B { #x = 'outer'; static mk() { return class C extends (USE, Object) { DECL }; } } var C = B.mk();",
    "class B { #x = 'outer'; m() { class C { DECL n() { return USE; } } return new C().n(); } } var C = B;",
]
DRIVER = """
var __r = [];
try { var __c = new C(); __r.push('new'); } catch (e) { __r.push(e); }
for (var __k of ['m', 'g', 'n', 'f']) { try { if (__c && typeof __c[__k] === 'function') { var __v = __c[__k](__c); __r.push(typeof __v); if (typeof __v === 'function') { try { __r.push(typeof __v()); } catch (e) { __r.push(e); } } else if (__v && typeof __v.next === 'function') { try { __r.push(typeof __v.next().value); } catch (e) { __r.push(e); } } } } catch (e) { __r.push(e); } }
try { if (typeof C.m === 'function') __r.push(typeof C.m(__c)); } catch (e) { __r.push(e); }
try { if (typeof outside === 'function') __r.push(typeof outside(__c)); } catch (e) { __r.push(e); }
print(__r);
"""


def generate(seed, index):
    r = Rng(seed, "priv", index)
    place = r.choice(PLACES)
    decl = r.choice(DECLS)
    obj = r.choice(["this", "this", "O", "o", "C", "null", "({})", "new C()", "super"])
    if "STMT" in place:
        use = r.choice(FOR_USES)
        src = place.replace("STMT", use)
    else:
        use = r.choice(USES)
        src = place.replace("USE", "(" + use + ")" if use.startswith(("class ", "function", "async ")) else use)
    src = src.replace("DECL", decl)
    if obj != "O":
        import re
        src = re.sub(r"\bO\b", obj, src)
    head = "var o = {}; var O = o;\n"
    if r.chance(0.3):
        head = "'use strict';\n" + head
    return head + src + "\n" + DRIVER
