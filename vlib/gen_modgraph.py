"""Workload generator for C17: module graphs (sources + the structural facts the checker needs).

A *case* is `{"job": <job for `bvh modules` / node_modules_runner>, "meta": {...}}`.
meta = {
  "names":  ["m0", ...]                      module short names (file "m0.mjs")
  "static": {"m0": ["m1", ...]}              requested modules in source order, de-duplicated
  "dyn":    {"m0": ["m2", ...]}              targets of dynamic import() sites (one execution each at most)
  "tla":    {"m0": k}                        number of top-level awaits (0 = synchronous body)
  "throws": {"m0": "TypeError"}              modules whose body throws (unconditionally, before the end marker)
  "linkfail": name|None                      module holding an import of a name its dependency does not export
  "parsefail": name|None                     module that does not parse
  "features": [...]                          for histograms
}

Trace protocol of a module body (every line starts with the module's name or marker):
  "s m0"                       first statement of the body
  "e m0"                       last statement of the body (a throwing module never prints it)
  "m0 t<i>"                    after the i-th top-level await
  "m0 live m1 <v0> <v1>"       value of m1's exported counter before / after calling m1's exported inc()
                               (or one Error<...> class when the binding is still in its TDZ)
  "m0 val m1 <name> <v>"       read of a (re-)exported binding through m1
  "m0 ns m1 <keys>"            Object.keys of a namespace object of m1
  "m0 own <v>"                 the module's own counter just before the end marker
  "m0 dyn m1 ok|err ..."       settle handler of a not-awaited dynamic import (registered through __dyn)
  "m0 adyn m1 ok|err ..."      awaited dynamic import

`SpecSim` is an executable transcription of the specification's InnerModuleEvaluation / async bookkeeping
(statuses, DFS indices, pending-async-dependency counts, async parents). It is used (1) to state the input
classes of the open known findings exactly (`avoid_k1`, `avoid_k2`) and (2) as a second opinion on
fulfilled/rejected outcomes. It knows nothing about timing (ticks)."""
import itertools

ERR_CLASSES = ["TypeError", "RangeError", "ReferenceError", "SyntaxError", "EvalError", "URIError", "Error"]
SETUP = "globalThis.__dyn = function (p) { return p; };"


def fname(n):
    return n + ".mjs"


# ------------------------------------------------------------------------------------------------
# graph algorithms

def sccs(names, edges):
    """Tarjan. edges: {name: [names]} -> {name: scc id} (ids arbitrary)"""
    index = {}
    low = {}
    on = set()
    st = []
    comp = {}
    counter = [0]
    ncomp = [0]
    for root in names:
        if root in index:
            continue
        work = [(root, 0)]
        index[root] = low[root] = counter[0]
        counter[0] += 1
        st.append(root)
        on.add(root)
        while work:
            v, i = work[-1]
            succ = edges.get(v, [])
            if i < len(succ):
                work[-1] = (v, i + 1)
                w = succ[i]
                if w not in index:
                    index[w] = low[w] = counter[0]
                    counter[0] += 1
                    st.append(w)
                    on.add(w)
                    work.append((w, 0))
                elif w in on:
                    low[v] = min(low[v], index[w])
            else:
                work.pop()
                if work:
                    u = work[-1][0]
                    low[u] = min(low[u], low[v])
                if low[v] == index[v]:
                    while True:
                        w = st.pop()
                        on.discard(w)
                        comp[w] = ncomp[0]
                        if w == v:
                            break
                    ncomp[0] += 1
    return comp


def reach(edges, start):
    seen = set()
    todo = list(start)
    while todo:
        v = todo.pop()
        if v in seen:
            continue
        seen.add(v)
        todo.extend(edges.get(v, []))
    return seen


# ------------------------------------------------------------------------------------------------
# the specification's algorithm (16.2.1.5.3 Evaluate, InnerModuleEvaluation, ExecuteAsyncModule,
# GatherAvailableAncestors, AsyncModuleExecutionFulfilled / Rejected), without timing

class SpecSim:
    def __init__(self, names, static, tla, throws):
        self.names = names
        self.req = static
        self.tla = {n: bool(tla.get(n)) for n in names}
        self.throws = {n: n in throws for n in names}
        self.status = {n: "linked" for n in names}
        self.error = {n: None for n in names}
        self.dfs_index = {}
        self.dfs_anc = {}
        self.root = {n: None for n in names}
        self.order = {n: None for n in names}       # None = unset, int, or "done"
        self.pending = {n: 0 for n in names}
        self.parents = {n: [] for n in names}
        self.cap = {n: False for n in names}
        self.counter = 0
        self.running = []                            # async bodies started, not yet completed
        self.executed = []                           # bodies started, in (untimed) order
        self.exec_phase = {}                         # name -> "sync" | "async-tla" | "async-sync"
        self.k1 = []                                 # (member, its count, root, root's count)
        self.pending_at_pop = {}

    # -- helpers
    def _is_async(self, n):
        return isinstance(self.order[n], int)

    def _execute(self, n, phase):
        self.executed.append(n)
        self.exec_phase[n] = phase

    class Throw(Exception):
        def __init__(self, origin):
            self.origin = origin

    def _inner(self, m, stack, index):
        st = self.status[m]
        if st in ("evaluating-async", "evaluated"):
            if self.error[m] is None:
                return index
            raise SpecSim.Throw(self.error[m])
        if st == "evaluating":
            return index
        self.status[m] = "evaluating"
        self.dfs_index[m] = self.dfs_anc[m] = index
        self.pending[m] = 0
        index += 1
        stack.append(m)
        for r in self.req.get(m, []):
            index = self._inner(r, stack, index)
            if self.status[r] == "evaluating":
                self.dfs_anc[m] = min(self.dfs_anc[m], self.dfs_anc[r])
            else:
                r = self.root[r]
                if self.error[r] is not None:
                    raise SpecSim.Throw(self.error[r])
            if self._is_async(r):
                self.pending[m] += 1
                self.parents[r].append(m)
        if self.pending[m] > 0 or self.tla[m]:
            self.order[m] = self.counter
            self.counter += 1
            if self.pending[m] == 0:
                self._execute(m, "async-tla")
                self.running.append(m)
        else:
            self._execute(m, "sync")
            if self.throws[m]:
                raise SpecSim.Throw(m)
        if self.dfs_anc[m] == self.dfs_index[m]:
            group = []
            while True:
                r = stack.pop()
                group.append(r)
                self.status[r] = "evaluating-async" if self.order[r] is not None else "evaluated"
                self.root[r] = m
                if r == m:
                    break
            for r in group:
                self.pending_at_pop[r] = self.pending[r]
                if r != m and self.order[r] is not None and self.pending[r] > 0 and self.pending[r] != self.pending[m]:
                    self.k1.append((r, self.pending[r], m, self.pending[m]))
        return index

    def evaluate(self, m):
        """host Evaluate(); returns 'fulfilled' / 'rejected:<origin module>' / 'async' (settles in drain())"""
        if self.status[m] in ("evaluating-async", "evaluated"):
            m = self.root[m]
        if self.cap[m]:
            return self._cap_state(m)
        self.cap[m] = True
        stack = []
        try:
            self._inner(m, stack, 0)
        except SpecSim.Throw as t:
            for x in stack:
                self.status[x] = "evaluated"
                self.error[x] = t.origin
                if self.root[x] is None:
                    self.root[x] = x
            self.error[m] = t.origin
            return "rejected:" + t.origin
        return self._cap_state(m)

    def _cap_state(self, m):
        if self.status[m] == "evaluated":
            return "fulfilled" if self.error[m] is None else "rejected:" + self.error[m]
        return "async"

    def final_state(self, m):
        if self.status[m] in ("evaluating-async", "evaluated"):
            m = self.root[m]
        return self._cap_state(m)

    # -- async phase (completion order is FIFO here; real order depends on ticks)
    def _gather(self, m, out):
        for p in self.parents[m]:
            if p in out or self.error[self.root[p]] is not None:
                continue
            self.pending[p] -= 1
            if self.pending[p] == 0:
                out.append(p)
                if not self.tla[p]:
                    self._gather(p, out)

    def _fulfilled(self, m):
        if self.status[m] == "evaluated":
            return
        self.order[m] = "done"
        self.status[m] = "evaluated"
        out = []
        self._gather(m, out)
        key = {}
        for p in out:
            key[p] = self.order[p]
        for p in sorted(out, key=lambda x: key[x]):
            if self.status[p] == "evaluated":
                continue
            if self.tla[p]:
                self._execute(p, "async-tla")
                self.running.append(p)
            else:
                self._execute(p, "async-sync")
                if self.throws[p]:
                    self._rejected(p, p)
                else:
                    self.order[p] = "done"
                    self.status[p] = "evaluated"

    def _rejected(self, m, origin):
        if self.status[m] == "evaluated":
            return
        self.error[m] = origin
        self.status[m] = "evaluated"
        self.order[m] = "done"
        for p in self.parents[m]:
            self._rejected(p, origin)

    def drain(self):
        while self.running:
            m = self.running.pop(0)
            if self.throws[m]:
                self._rejected(m, m)
            else:
                self._fulfilled(m)


def simulate(meta, walks):
    """runs host Evaluate() for each name of `walks` in turn (each followed by a drain).
    Only exact for graphs without dynamic import."""
    sim = SpecSim(meta["names"], meta["static"], meta["tla"], meta["throws"])
    outcomes = []
    for w in walks:
        r = sim.evaluate(w)
        sim.drain()
        outcomes.append(sim.final_state(w) if r == "async" else r)
    return sim, outcomes


def may_async(meta):
    """modules that have top-level await or reach one through static edges"""
    out = set()
    for n in meta["names"]:
        if any(meta["tla"].get(x) for x in reach(meta["static"], [n])):
            out.add(n)
    return out


def link_walk(meta, start, linked):
    """InnerModuleLinking from `start` (specification order). Returns (failed, finished_on_stack): whether the
    walk reaches the module with the unresolvable import, and whether at that moment the DFS stack holds a module
    that already finished InitializeEnvironment (a member of a not yet closed cycle)."""
    broken = meta.get("linkfail")
    index = {}
    anc = {}
    stack = []
    finished = set()
    counter = [0]

    class Fail(Exception):
        pass

    def inner(m):
        if m in linked or m in index:
            return
        index[m] = anc[m] = counter[0]
        counter[0] += 1
        stack.append(m)
        for r in meta["static"].get(m, []):
            inner(r)
            if r in stack:
                anc[m] = min(anc[m], anc[r])
        if m == broken:
            raise Fail()
        finished.add(m)
        if anc[m] == index[m]:
            while True:
                r = stack.pop()
                linked.add(r)
                if r == m:
                    break

    try:
        inner(start)
    except Fail:
        return True, any(x in finished for x in stack)
    return False, False


def avoid_flags(meta, entry, second):
    """Input classes of the open known findings (see known/c17_findings.json), as narrow as they can be stated.

    k1 ("scc-pending-count"): when InnerModuleEvaluation closes a strongly connected group of > 1 modules, a
        member other than the group's root that waits for k > 0 asynchronous dependencies while the root
        waits for a different number.
    k2 ("async-phase-sync-throw"): a module WITHOUT top-level await that has an asynchronous dependency (so it
        is executed later, from AsyncModuleExecutionFulfilled) and whose body throws.
    k3 ("evaluate-while-evaluating-async"): a dynamic import() whose target may be asynchronous (has or reaches a
        top-level await) and was, or may have been, reached first by an evaluation that started at another module
        (the host's entry, the second entry, another import() target): Evaluate() then finds it evaluating-async
        without a promise capability of its own.
    k4 ("link-error-in-open-cycle"): the graph has an unresolvable import and, when InnerModuleLinking raises
        the SyntaxError, the DFS stack holds a module that already finished InitializeEnvironment.
    For host evaluations of graphs without dynamic import k1, k2, k4 are decided exactly by running the
    specification's algorithm (`SpecSim`, `link_walk`). Evaluations started by dynamic import() run at a time the
    model does not know, so for the part of the graph they can reach first a structural over-approximation is
    used: k1' = a multi-module SCC of the not-yet-visited subgraph containing a module that may be asynchronous;
    k2' = a throwing module without TLA, not yet visited, that may have an asynchronous dependency;
    k4' = unresolvable import + dynamic import + any multi-module SCC."""
    flags = set()
    names = meta["names"]
    static = meta["static"]
    has_dyn = any(meta["dyn"].get(n) for n in names)
    walks = [entry] + ([second] if second else [])
    if meta.get("parsefail"):
        # an evaluation that depends on the module that does not parse fails while loading: nothing is linked or run
        walks = [w for w in walks if meta["parsefail"] not in reach(static, [w])]
        if not walks:
            return flags
    comp = sccs(names, static)
    size = {}
    for n in names:
        size[comp[n]] = size.get(comp[n], 0) + 1
    eval_walks = walks
    if meta.get("linkfail"):
        broken = meta["linkfail"]
        if has_dyn:
            if any(v > 1 for v in size.values()):
                flags.add("k4")
        else:
            linked = set()
            for w in walks:
                failed, fin = link_walk(meta, w, linked)
                if failed and fin:
                    flags.add("k4")
            # evaluations that do not depend on the broken import run normally
            eval_walks = [w for w in walks if broken not in reach(static, [w])]
            if not eval_walks:
                return flags
    sim, _ = simulate(meta, eval_walks if not has_dyn else eval_walks[:1])
    if sim.k1:
        flags.add("k1")
    for n in names:
        if n not in meta["throws"] or meta["tla"].get(n):
            continue
        ph = sim.exec_phase.get(n)
        if ph == "async-sync":
            flags.add("k2")
        elif ph is None and sim.pending_at_pop.get(n, 0) > 0:
            # waits for asynchronous dependencies and is never executed in the model's FIFO completion order;
            # inside a multi-module group the real completion order may differ
            grp = [x for x in names if sim.root.get(x) is not None and sim.root.get(x) == sim.root.get(n)]
            if len(grp) > 1:
                flags.add("k2")
    if has_dyn:
        masync = may_async(meta)
        visited = set(sim.dfs_index)
        rest = [n for n in names if n not in visited]
        if rest:
            sub = {n: [d for d in static.get(n, []) if d in rest] for n in rest}
            rcomp = sccs(rest, sub)
            rsize = {}
            for n in rest:
                rsize[rcomp[n]] = rsize.get(rcomp[n], 0) + 1
            for n in rest:
                if rsize[rcomp[n]] > 1 and n in masync:
                    flags.add("k1")
                if n in meta["throws"] and not meta["tla"].get(n) and any(d in masync for d in static.get(n, [])):
                    flags.add("k2")
        # k3: who can have walked over the target before the import()'s own Evaluate() runs?
        starts = set(walks)
        for n in names:
            starts |= set(meta["dyn"].get(n, []))
        for n in names:
            for d in meta["dyn"].get(n, []):
                if d not in masync:
                    continue
                others = [w for w in starts if w != d and d in reach(static, [w])]
                if others:
                    flags.add("k3")
    return flags


# ------------------------------------------------------------------------------------------------
# sources

def exported_names(names, own, named, nsx, star):
    """fixpoint of GetExportedNames for the generator's naming scheme (all names globally unique)"""
    out = {n: set(own[n]) | set(named.get(n, [])) | set(nsx.get(n, [])) for n in names}
    changed = True
    while changed:
        changed = False
        for n in names:
            for d in star.get(n, []):
                add = out[d] - out[n]
                if add:
                    out[n] |= add
                    changed = True
    return out


def build_case(spec, cid, prefix=""):
    """spec: {"n", "edges": {i: [(j, forms...)]} ...} produced by random_spec / exhaustive; returns a case.
    `prefix` is put in front of every module name (several graphs can then share one job)."""
    n = spec["n"]
    names = ["%sm%d" % (prefix, i) for i in range(n)]
    stmts = {i: [] for i in range(n)}          # (target, text) in source order
    probes = {i: [] for i in range(n)}
    own = {names[i]: ["c%d" % i, "inc%d" % i] for i in range(n)}
    named, nsx, star = {}, {}, {}
    for i in range(n):
        for (j, form) in spec["edges"].get(i, []):
            if form == "xnamed":
                named.setdefault(names[i], []).append("r%d_%d" % (i, j))
            elif form == "xns":
                nsx.setdefault(names[i], []).append("n%d_%d" % (i, j))
            elif form == "xstar":
                star.setdefault(names[i], []).append(names[j])
    exp = exported_names(names, own, named, nsx, star)
    uniq = itertools.count()
    features = set()
    for i in range(n):
        me = names[i]
        for (j, form) in spec["edges"].get(i, []):
            d = names[j]
            f = "./" + fname(d)
            k = next(uniq)
            if form == "bare":
                stmts[i].append((d, "import '%s';" % f))
            elif form == "live":
                stmts[i].append((d, "import {c%d as c_%d, inc%d as inc_%d} from '%s';" % (j, k, j, k, f)))
                probes[i].append("try { const v0 = c_%d; inc_%d(); print('%s live %s', v0, c_%d); } catch (e) { print('%s live %s', __show(e)); }"
                                 % (k, k, me, d, k, me, d))
                features.add("live-binding")
            elif form == "ns":
                stmts[i].append((d, "import * as N_%d from '%s';" % (k, f)))
                probes[i].append("try { print('%s ns %s', Object.keys(N_%d).join(',')); } catch (e) { print('%s ns %s', __show(e)); }"
                                 % (me, d, k, me, d))
                features.add("namespace-import")
            elif form == "via":
                # a name that d provides through its own re-exports (falls back to d's counter)
                cands = sorted(x for x in exp[d] if x not in own[d])
                pick = cands[spec["pick"].get("%d:%d" % (i, j), 0) % len(cands)] if cands else "c%d" % j
                stmts[i].append((d, "import {%s as v_%d} from '%s';" % (pick, k, f)))
                probes[i].append("try { const v = v_%d; print('%s val %s %s', typeof v === 'object' ? Object.keys(v).join(',') : typeof v === 'function' ? 'fn' : v); } catch (e) { print('%s val %s %s', __show(e)); }"
                                 % (k, me, d, pick, me, d, pick))
                features.add("import-through-reexport" if cands else "live-binding")
            elif form == "missing":
                stmts[i].append((d, "import {nope_%d} from '%s';" % (k, f)))
                features.add("link-error")
            elif form == "xnamed":
                stmts[i].append((d, "export {c%d as r%d_%d} from '%s';" % (j, i, j, f)))
                features.add("reexport-named")
            elif form == "xns":
                stmts[i].append((d, "export * as n%d_%d from '%s';" % (i, j, f)))
                features.add("reexport-ns")
            elif form == "xstar":
                stmts[i].append((d, "export * from '%s';" % f))
                features.add("reexport-star")
            else:
                raise ValueError(form)
    static = {}
    for i in range(n):
        seen = []
        for d, _ in stmts[i]:
            if d not in seen:
                seen.append(d)
        static[names[i]] = seen
        if len(seen) < len(stmts[i]):
            features.add("duplicate-import-edge")
        if names[i] in seen:
            features.add("self-import")
    modules = {}
    tla = {}
    throws = {}
    dyn = {}
    for i in range(n):
        me = names[i]
        b = spec["body"].get(i, {})
        nawait = b.get("awaits", 0)
        top = [t for _, t in stmts[i]]
        bottom = []
        cut = b.get("imports_at_bottom", 0)
        if cut:
            bottom = top[len(top) - cut:]
            top = top[:len(top) - cut]
            features.add("import-after-code")
        lines = list(top)
        lines.append("print('s %s');" % me)
        lines.append("export let c%d = 0;" % i)
        lines.append("export function inc%d() { return ++c%d; }" % (i, i))
        body = list(probes[i])
        # dynamic imports
        for (j, how) in b.get("dyn", []):
            d = names[j]
            dyn.setdefault(me, []).append(d)
            features.add("dynamic-import-" + how)
            if how == "then":
                body.append("__dyn(import('./%s')).then(function (ns) { print('%s dyn %s ok', typeof ns.c%d); }, function (e) { print('%s dyn %s err', __show(e)); });"
                            % (fname(d), me, d, j, me, d))
            else:
                body.append("try { const ns = await import('./%s'); print('%s adyn %s ok', typeof ns.c%d); } catch (e) { print('%s adyn %s err', __show(e)); }"
                            % (fname(d), me, d, j, me, d))
        is_tla = nawait > 0 or any(how == "await" for _, how in b.get("dyn", []))
        # awaits are spread between the body statements
        aw_forms = ["await 0;", "await Promise.resolve(1);", "await null;", "await new Promise(function (r) { r(2); });"]
        slots = len(body) + 1
        aw_at = {}
        for a in range(nawait):
            pos = (b.get("await_pos", 0) + a * 7) % slots
            aw_at.setdefault(pos, []).append(a)
        out = []
        tcount = 0
        for pos in range(slots):
            for a in aw_at.get(pos, []):
                out.append(aw_forms[(b.get("await_form", 0) + a) % len(aw_forms)])
                tcount += 1
                out.append("print('%s t%d');" % (me, tcount))
            if pos < len(body):
                out.append(body[pos])
        thr = b.get("throw")
        if thr:
            cls, where = thr
            throws[me] = cls
            t = "throw new %s('%s');" % (cls, me)
            if where == "early":
                out.insert(0, t)
            else:
                out.append(t)
            features.add("throw-async" if is_tla else "throw-sync")
        lines += out
        lines.append("print('%s own', c%d);" % (me, i))
        lines.append("print('e %s');" % me)
        lines += bottom
        if b.get("syntax_error"):
            lines.append("let let = ;")
            features.add("parse-error")
        modules[fname(me)] = "\n".join(lines) + "\n"
        tla[me] = (nawait if nawait else 1) if is_tla else 0
        if is_tla:
            features.add("tla")
    entry = names[spec["entry"]]
    second = names[spec["second"]] if spec.get("second") is not None else None
    job = {"id": cid, "modules": modules, "entry": fname(entry), "re_evaluate": bool(spec.get("re", True)), "setup": SETUP}
    if second:
        job["second_entry"] = fname(second)
    if spec.get("delay"):
        job["load_delay"] = {fname(names[int(i)]): k for i, k in spec["delay"].items()}
        features.add("delayed-load")
    comp = sccs(names, static)
    sizes = {}
    for nm in names:
        sizes[comp[nm]] = sizes.get(comp[nm], 0) + 1
    if any(v > 1 for v in sizes.values()):
        features.add("cycle")
    parsefail = None
    for i in range(n):
        if spec["body"].get(i, {}).get("syntax_error"):
            parsefail = names[i]
    meta = {
        "names": names, "static": static, "dyn": dyn, "tla": tla, "throws": throws,
        "linkfail": next((names[i] for i in range(n) for (_, form) in spec["edges"].get(i, []) if form == "missing"), None),
        "parsefail": parsefail,
        "entry": entry, "second": second, "deadlock": bool(spec.get("deadlock")),
        "features": sorted(features | ({"deliberate-deadlock"} if spec.get("deadlock") else set())),
    }
    return {"job": job, "meta": meta, "spec": spec}


# ------------------------------------------------------------------------------------------------
# exhaustive part: all directed graphs on n nodes (self-loops included) x entry, synchronous bodies

def exhaustive_specs(max_n):
    for n in range(1, max_n + 1):
        pairs = [(i, j) for i in range(n) for j in range(n)]
        for mask in range(1 << len(pairs)):
            edges = {}
            for b, (i, j) in enumerate(pairs):
                if mask >> b & 1:
                    edges.setdefault(i, []).append((j, "bare"))
            for entry in range(n):
                yield {"n": n, "edges": edges, "body": {}, "pick": {}, "entry": entry, "second": (entry + 1) % n if n > 1 else None,
                       "re": True, "kind": "exhaustive", "mask": mask}


def exhaustive_key(spec):
    """Two exhaustive specs whose reachable parts (from entry, then from the second entry) are equal as ordered
    graphs after renaming by first visit give the same observable behaviour up to that renaming; only one
    representative per key is run against node (all of them run on boa)."""
    order = []

    def visit(v):
        if v in order:
            return
        order.append(v)
        for (w, _) in spec["edges"].get(v, []):
            visit(w)
    visit(spec["entry"])
    n1 = len(order)
    if spec.get("second") is not None:
        visit(spec["second"])
    ren = {v: k for k, v in enumerate(order)}
    return (n1, ren.get(spec.get("second")), tuple(tuple(ren[w] for (w, _) in spec["edges"].get(v, [])) for v in order))


# ------------------------------------------------------------------------------------------------
# random part

FORMS = [("bare", 5), ("live", 5), ("ns", 2), ("via", 2), ("xnamed", 1), ("xns", 1), ("xstar", 2)]


def random_spec(r, max_n=8):
    n = r.weighted([(2, 2), (3, 4), (4, 5), (5, 4), (6, 3), (7, 2), (8, 2)])
    n = min(n, max_n)
    shape = r.weighted([("dag", 4), ("dag+back", 4), ("random", 3), ("ring", 2), ("layers", 2), ("tree+cross", 2), ("two-cycles", 2)])
    pairs = set()
    if shape in ("dag", "dag+back"):
        p = r.choice([0.25, 0.4, 0.6])
        for i in range(n):
            for j in range(i + 1, n):
                if r.chance(p):
                    pairs.add((i, j))
        if shape == "dag+back":
            for _ in range(r.range(1, 2)):
                i = r.range(1, n - 1)
                pairs.add((i, r.below(i + 1)))
    elif shape == "random":
        p = r.choice([0.15, 0.3, 0.5])
        for i in range(n):
            for j in range(n):
                if r.chance(p):
                    pairs.add((i, j))
    elif shape == "ring":
        k = r.range(2, n)
        for i in range(k):
            pairs.add((i, (i + 1) % k))
        for i in range(n):
            for j in range(n):
                if r.chance(0.15):
                    pairs.add((i, j))
    elif shape == "layers":
        width = r.range(1, 3)
        layer = [min(i // width, 7) for i in range(n)]
        for i in range(n):
            for j in range(n):
                if layer[j] == layer[i] + 1 and r.chance(0.75):
                    pairs.add((i, j))
        if r.chance(0.3):
            pairs.add((n - 1, r.below(n)))
    elif shape == "tree+cross":
        for j in range(1, n):
            pairs.add((r.below(j), j))
        for _ in range(r.range(0, 3)):
            pairs.add((r.below(n), r.below(n)))
    else:  # two cycles, connected one way or both ways
        k = max(2, n // 2)
        for i in range(k):
            pairs.add((i, (i + 1) % k))
        rest = list(range(k, n))
        for a, i in enumerate(rest):
            pairs.add((i, rest[(a + 1) % len(rest)]))
        if rest:
            pairs.add((r.below(k), r.choice(rest)))
            if r.chance(0.5):
                pairs.add((r.choice(rest), r.below(k)))
    if not pairs:
        pairs.add((0, n - 1))
    # every node but the first reachable-ish: connect orphans so that graphs are not mostly unreachable
    indeg = {j for (_, j) in pairs}
    for j in range(1, n):
        if j not in indeg and r.chance(0.7):
            pairs.add((r.below(j), j))
    p_tla = r.weighted([(0.0, 3), (0.15, 3), (0.35, 3), (0.7, 1)])
    p_throw = r.weighted([(0.0, 6), (0.12, 3), (0.3, 1)])
    p_dyn = r.weighted([(0.0, 7), (0.15, 2), (0.35, 1)])
    p_dup = r.choice([0.0, 0.15, 0.3])
    edges = {}
    pick = {}
    for (i, j) in sorted(pairs):
        forms = [r.weighted(FORMS)]
        while r.chance(p_dup) and len(forms) < 3:
            f = r.weighted(FORMS)
            if f in ("xnamed", "xns") and f in forms:
                continue  # the same export name twice is an early error
            forms.append(f)
        for f in forms:
            edges.setdefault(i, []).append((j, f))
            if f == "via":
                pick["%d:%d" % (i, j)] = r.below(16)
    for i in list(edges):
        edges[i] = r.shuffle(edges[i])
    body = {}
    for i in range(n):
        b = {}
        if r.chance(p_tla):
            b["awaits"] = r.weighted([(1, 5), (2, 3), (3, 2), (5, 1)])
            b["await_pos"] = r.below(8)
            b["await_form"] = r.below(4)
        if r.chance(p_throw):
            b["throw"] = (ERR_CLASSES[(i + r.below(3)) % len(ERR_CLASSES)], r.choice(["early", "late"]))
        if r.chance(p_dyn):
            b["dyn"] = [(r.below(n), r.weighted([("then", 3), ("await", 2)])) for _ in range(r.range(1, 2))]
        if edges.get(i) and r.chance(0.1):
            b["imports_at_bottom"] = r.range(1, len(edges[i]))
        if b:
            body[i] = b
    spec = {"n": n, "edges": edges, "body": body, "pick": pick, "kind": "random", "shape": shape}
    spec["entry"] = r.weighted([(0, 5)] + [(i, 1) for i in range(1, n)])
    spec["second"] = None if r.chance(0.25) else r.below(n)
    spec["re"] = r.chance(0.8)
    # `await import(d)` inside m deadlocks (by specification) when d needs m to finish first: d reaches m through
    # static edges and awaited dynamic imports. Such sites become not-awaited ones, except in a few graphs that
    # keep the deadlock on purpose (both engines must then leave the promise pending).
    keep_deadlock = r.chance(0.004)
    h = {i: [j for (j, _) in edges.get(i, [])] + [j for (j, how) in body.get(i, {}).get("dyn", []) if how == "await"] for i in range(n)}
    for i in range(n):
        dl = body.get(i, {}).get("dyn")
        if not dl:
            continue
        for k, (j, how) in enumerate(dl):
            if how == "await" and i in reach(h, [j]):
                if keep_deadlock:
                    spec["deadlock"] = True
                else:
                    dl[k] = (j, "then")
                    h[i] = [x for x in h[i] if x != j] + [j for (j2, _) in edges.get(i, []) if j2 == j]
    if spec.get("deadlock"):
        spec["second"] = None
        spec["re"] = False
    if r.chance(0.15):
        spec["delay"] = {str(r.below(n)): r.range(1, 6) for _ in range(r.range(1, 3))}
    if r.chance(0.02):
        i = r.below(n)
        edges.setdefault(i, []).append((r.below(n), "missing"))
    if r.chance(0.01):
        body.setdefault(r.below(n), {})["syntax_error"] = True
    return spec


def spec_to_json(spec):
    """specs contain tuples and int keys; this makes them JSON round-trippable"""
    s = dict(spec)
    s["edges"] = {str(k): [list(e) for e in v] for k, v in spec["edges"].items()}
    s["body"] = {str(k): dict(v) for k, v in spec["body"].items()}
    return s


def spec_from_json(s):
    spec = dict(s)
    spec["edges"] = {int(k): [tuple(e) for e in v] for k, v in s["edges"].items()}
    body = {}
    for k, v in s["body"].items():
        b = dict(v)
        if "throw" in b:
            b["throw"] = tuple(b["throw"])
        if "dyn" in b:
            b["dyn"] = [tuple(x) for x in b["dyn"]]
        body[int(k)] = b
    spec["body"] = body
    return spec
