"""Builds every harness flavour the quick checks use (offline, from files on disk)."""
import os
import subprocess
import sys
from concurrent.futures import ThreadPoolExecutor

from . import build

VERIF = build.VERIF


def miri_warm(crate):
    d = os.path.join(VERIF, "harness", crate)
    env = dict(os.environ)
    env.update({"CARGO_TARGET_DIR": os.path.join(VERIF, ".targets", "%s-miri" % crate), "MIRIFLAGS": "-Zmiri-tree-borrows", "CARGO_NET_OFFLINE": "true"})
    lock = os.path.join(d, "Cargo.lock")
    if not os.path.exists(lock):
        import shutil
        shutil.copyfile("/repo/Cargo.lock", lock)
    args = {"gcmon": ["random", "1", "1", "5", "2"], "strmon": ["random", "1", "1", "2", "--lite"]}[crate]
    p = subprocess.run(["cargo", "+nightly", "miri", "run", "--offline", "-q", "--"] + args, cwd=d, env=env, stdout=subprocess.PIPE, stderr=subprocess.STDOUT, text=True)
    return "miri %s: rc=%d" % (crate, p.returncode)


def main():
    tasks = [("bvh", "native"), ("gcmon", "native"), ("strmon", "native"), ("bvh", "enum"), ("gcmon", "asan"), ("strmon", "asan")]
    failed = []

    def one(t):
        try:
            build.ensure(t[0], t[1], quiet=False, private=False)
            return "%s/%s ok" % t
        except build.BuildError as e:
            failed.append(t)
            return "%s/%s FAILED\n%s" % (t[0], t[1], str(e)[-800:])
    with ThreadPoolExecutor(max_workers=3) as ex:
        for r in ex.map(one, tasks):
            print(r)
            sys.stdout.flush()
        for r in ex.map(miri_warm, ["gcmon", "strmon"]):
            print(r)
    # only the native engine harness is indispensable; the others degrade to `inconclusive` sub-checks
    if ("bvh", "native") in failed:
        print("setup failed: the engine harness does not build")
        return 1
    print("setup ok")
    return 0


if __name__ == "__main__":
    sys.exit(main())
