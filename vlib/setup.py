import sys
from . import build

def main():
    build.ensure("bvh", "native", quiet=False)
    print("setup ok")

if __name__ == "__main__":
    main()
