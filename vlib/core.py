"""Check framework: verdict discipline, evidence files, replays, known findings."""
import hashlib
import json
import os
import sys
import time

VERIF = os.path.dirname(os.path.dirname(os.path.abspath(__file__)))
# VERIF_OUT redirects evidence and replays (used by tools/seeded.py so that drills on a scratch worktree
# never overwrite the evidence of runs against /repo); registered commands never set it
_OUT = os.environ.get("VERIF_OUT") or VERIF
EVIDENCE = os.path.join(_OUT, "evidence")
REPLAYS = os.path.join(_OUT, "replays")
KF_PATH = os.path.join(VERIF, "known_findings.json")


def load_known():
    """known_findings.json plus the per-property files known/<pid>_findings.json (same entry format)"""
    import glob
    out = {"findings": []}
    try:
        with open(KF_PATH) as f:
            out["findings"] += json.load(f).get("findings", [])
    except FileNotFoundError:
        pass
    seen = {e.get("id") for e in out["findings"]}
    for path in sorted(glob.glob(os.path.join(VERIF, "known", "*_findings.json"))):
        try:
            with open(path) as f:
                d = json.load(f)
        except Exception:
            continue
        for e in (d if isinstance(d, list) else d.get("findings", [])):
            if isinstance(e, dict) and e.get("id") not in seen:
                seen.add(e.get("id"))
                out["findings"].append(e)
    return out


class NoVerdict(Exception):
    pass


class Check:
    def __init__(self, pid, tier, seed, level="exploration"):
        self.pid = pid
        self.tier = tier
        self.seed = seed
        self.level = level
        self.t0 = time.time()
        self.violations = []
        self.known_hits = {}
        self.inconclusive = {}
        self.coverage = {}
        self.assumptions = []
        self.known = [k for k in load_known().get("findings", []) if k.get("property") == pid]
        self.open_known = [k for k in self.known if k.get("status") == "open"]

    # ---- verdicts
    def violation(self, what, replay):
        """replay: JSON-serialisable dict sufficient to re-run exactly this case"""
        body = dict(replay)
        body["property"] = self.pid
        body["what"] = what
        body["seed"] = self.seed
        h = hashlib.sha256(json.dumps(body, sort_keys=True).encode()).hexdigest()[:16]
        d = os.path.join(REPLAYS, self.pid)
        os.makedirs(d, exist_ok=True)
        path = os.path.join(d, h + ".json")
        with open(path, "w") as f:
            json.dump(body, f, indent=1)
        self.violations.append({"what": what, "replay": path})
        print("VIOLATION property=%s replay=%s" % (self.pid, path))
        print("  " + what[:600])
        sys.stdout.flush()

    def known_finding(self, finding, what=None):
        fid = finding["id"]
        if fid not in self.known_hits:
            print("KNOWN-FINDING: property=%s %s" % (self.pid, what or finding["title"]))
            sys.stdout.flush()
        self.known_hits[fid] = self.known_hits.get(fid, 0) + 1

    def inconc(self, why, n=1):
        self.inconclusive[why] = self.inconclusive.get(why, 0) + n

    # ---- evidence
    def finish(self, evaluations, distinct_nontrivial, rule, samples, extra=None, min_nontrivial=2):
        cov = {
            "evaluations": int(evaluations),
            "distinct_nontrivial": int(distinct_nontrivial),
            "rule": rule,
            "samples": samples[:6] if samples else [],
            "inconclusive": self.inconclusive,
            "known_finding_hits": self.known_hits,
        }
        if extra:
            cov.update(extra)
        ev = {
            "property_id": self.pid,
            "tier": self.tier,
            "seed": self.seed,
            "level": self.level,
            "coverage": cov,
            "assumptions": self.assumptions,
            "wall_s": round(time.time() - self.t0, 2),
            "violations": len(self.violations),
        }
        os.makedirs(EVIDENCE, exist_ok=True)
        with open(os.path.join(EVIDENCE, self.pid + ".json"), "w") as f:
            json.dump(ev, f, indent=1)
        if self.violations:
            print("%s: %d violation(s) in %d evaluations (%.0fs)" % (self.pid, len(self.violations), evaluations, time.time() - self.t0))
            return 1
        if distinct_nontrivial < min_nontrivial or not cov["samples"]:
            print("NO-VERDICT %s: only %d conclusive non-trivial cases (minimum %d); inconclusive: %s" % (
                self.pid, distinct_nontrivial, min_nontrivial, self.inconclusive))
            return 2
        print("%s: held on %d evaluations (%d distinct non-trivial), %d inconclusive, known-finding hits %s (%.0fs)" % (
            self.pid, evaluations, distinct_nontrivial, sum(self.inconclusive.values()), self.known_hits or "{}", time.time() - self.t0))
        return 0


def norm_hash(text):
    return hashlib.sha256(text.encode("utf8", "surrogatepass")).hexdigest()[:16]
