"""`shape` profile (C06): histories of object / prototype / global mutations interleaved with repeated
executions of the same property access sites (functions that are called again and again, so that their
inline caches are warm when the mutation happens)."""
from .rng import Rng

PROPS = ["a", "b", "c", "d", "x", "y", "length", "0", "1", "m"]

SITES = r"""
function get_a(o) { return o.a; }
function get_b(o) { return o.b; }
function get_x(o) { return o.x; }
function get_len(o) { return o.length; }
function get_m(o) { return o.m; }
function call_m(o) { return typeof o.m === 'function' ? o.m(1) : 'no-m'; }
function set_a(o, v) { o.a = v; return o.a; }
function set_b(o, v) { o.b = v; return o.b; }
function set_x(o, v) { 'use strict'; try { o.x = v; } catch (e) { return e; } return o.x; }
function set_len(o, v) { try { o.length = v; } catch (e) { return e; } return o.length; }
function get_chain(o) { return o.a + '|' + o.b + '|' + o.c; }
function has_a(o) { return 'a' in o; }
function glob_g() { return typeof G1 === 'undefined' ? 'no-G1' : G1; }
function glob_set(v) { G2 = v; return G2; }
function key_order(o) { var s = ''; for (var k in o) s += k + ','; return s; }
function set_proto_no_cycle(o, p) { for (var q = p, n = 0; q !== null && q !== undefined && n < 64; n++) { if (q === o) return 'cycle-skipped'; q = Object.getPrototypeOf(q); } return Object.setPrototypeOf(o, p); }
class Base { get acc() { return 'base-acc'; } meth() { return 'base-meth'; } }
class Derived extends Base { sget() { return super.acc; } smeth() { return super.meth(); } sset(v) { super.sv = v; return this.sv; } }
function super_get(o) { return o.sget ? o.sget() : 'n/a'; }
function super_meth(o) { return o.smeth ? o.smeth() : 'n/a'; }
function super_set(o, v) { return o.sset ? o.sset(v) : 'n/a'; }
var SITE_FNS = [get_a, get_b, get_x, get_len, get_m, call_m, get_chain, has_a, key_order, super_get, super_meth];
function probe(tag) {
  var out = [];
  for (var i = 0; i < POOL.length; i++) {
    var o = POOL[i];
    var row = [];
    for (var j = 0; j < SITE_FNS.length; j++) {
      try { row.push(SITE_FNS[j](o)); } catch (e) { row.push(e); }
    }
    out.push(row);
  }
  print(tag, out, glob_g());
}
"""


def value(r):
    return r.choice(["1", "2", "'s'", "null", "undefined", "-0", "1.5", "{}", "[1,2]", "function(k){ return 'f' + k + (this && this.a); }", "true", "10n"])


def new_object(r, npool):
    k = r.below(15)
    props = ", ".join("%s: %s" % (p, value(r)) for p in r.sample(["a", "b", "c", "x", "m"], r.below(4)))
    if k == 0:
        return "{%s}" % props
    if k == 1 and npool:
        return "Object.create(POOL[%d])" % r.below(npool)
    if k == 2:
        return "[%s]" % ", ".join(value(r) for _ in range(r.below(4)))
    if k == 3:
        return "new Derived()"
    if k == 4:
        return "Object.create(null)"
    if k == 5 and npool:
        return "Object.assign(Object.create(POOL[%d]), {%s})" % (r.below(npool), props)
    if k == 6:
        return "(function(){ var o = {}; %s return o; })()" % " ".join("o.%s = %s;" % (p, value(r)) for p in r.shuffle(["a", "b", "c", "x"])[:r.below(5)])
    if k == 7:
        return "{get a() { return 'getter-a'; }, set a(v) { this._a = v; }, b: 1}"
    if k == 8:
        return "Object('str')"
    if k == 9:
        return "(function(){ return arguments; })(1, 2)"
    if k == 10:
        return "new Proxy({a: 'pa', b: 'pb'}, {})"
    # receivers whose shape is unique (dictionary mode) rather than a node of the shared transition tree:
    # an object that went through more than 1024 transitions, a built-in namespace, a built-in prototype
    if k == 11:
        return "(function(){ var o = {}; for (var i = 0; i < 1100; i++) o['t' + i] = i; for (var i = 0; i < 1100; i++) delete o['t' + i]; %s return o; })()" % \
            " ".join("o.%s = %s;" % (p, value(r)) for p in r.shuffle(["a", "b", "c", "x"])[:r.below(5)])
    if k == 12:
        return "Math"
    if k == 13:
        return "Array.prototype"
    return "{%s}" % props


def mutation(r, npool, proxies=()):
    ti = r.below(npool)
    t = "POOL[%d]" % ti
    p = r.choice(["a", "b", "c", "x", "m", "length"])
    k = r.below(22)
    if k < 3:
        return "%s.%s = %s;" % (t, p, value(r))
    if k == 3:
        return "delete %s.%s;" % (t, p)
    if k == 4:
        return "Object.defineProperty(%s, '%s', {get() { return 'acc-%s'; }, set(v) { this._s = v; }, configurable: true, enumerable: %s});" % (t, p, p, r.choice(["true", "false"]))
    if k == 5:
        return "Object.defineProperty(%s, '%s', {value: %s, writable: %s, configurable: true, enumerable: true});" % (t, p, value(r), r.choice(["true", "false"]))
    if k == 6:
        # open finding K7: a prototype cycle through a Proxy is unbounded native recursion in boa (the process dies);
        # once a Proxy exists, prototypes are only changed through a helper that refuses to close a cycle
        fn = "set_proto_no_cycle" if proxies else "Object.setPrototypeOf"
        return fn + "(%s, %s);" % (t, r.choice(["POOL[%d]" % r.below(npool), "null", "Base.prototype", "Array.prototype", "{a: 'fresh-proto', m() { return 'pm'; }}"]))
    if k == 7:
        return "Object.freeze(%s);" % t
    if k == 8:
        return "Object.seal(%s);" % t
    if k == 9:
        return "Object.preventExtensions(%s);" % t
    if k == 10:
        return "var G1 = %s;" % value(r) if r.chance(0.5) else "globalThis.G1 = %s;" % value(r)
    if k == 11:
        return "delete globalThis.G1;"
    if k == 12:
        return "Object.defineProperty(globalThis, 'G1', {get() { return 'G1-getter'; }, configurable: true});"
    if k == 13:
        return "print('glob_set', glob_set(%s));" % value(r)
    if k == 14:
        return "print('set_a', set_a(%s, %s), 'set_b', set_b(%s, %s));" % (t, value(r), "POOL[%d]" % r.below(npool), value(r))
    if k == 15:
        return "print('set_x', set_x(%s, %s), 'set_len', set_len(%s, %s));" % (t, value(r), "POOL[%d]" % r.below(npool), r.choice(["0", "1", "5", "-1", "'2'", "1.5"]))
    if k == 16:
        return "Base.prototype.%s = %s;" % (r.choice(["meth", "a", "sv", "extra"]), value(r))
    if k == 17:
        return "delete Base.prototype.%s;" % r.choice(["meth", "acc", "a"])
    if k == 18:
        return "Object.defineProperty(Base.prototype, 'acc', {get() { return 'redefined-acc'; }, configurable: true});"
    if k == 19:
        return "print('super_set', super_set(%s, %s));" % (t, value(r))
    if k == 20:
        return "%s[%s] = %s;" % (t, r.choice(["0", "1", "5", "'a'", "'zz'"]), value(r))
    return "for (var q = 0; q < 6; q++) { %s['k' + q] = q; }" % t


def generate(seed, index):
    r = Rng(seed, "shape", index)
    npool = 2 + r.below(5)
    lines = [SITES, "var POOL = [];"]
    proxies = set()
    for i in range(npool):
        o = new_object(r, i)
        if "new Proxy" in o:
            proxies.add(i)
        lines.append("POOL.push(%s);" % o)
    lines.append("probe('init'); probe('warm');")
    nsteps = 5 + r.below(30)
    for s in range(nsteps):
        if r.chance(0.12):
            i, o = r.below(npool), new_object(r, npool)
            if "new Proxy" in o:   # never discarded: a replaced Proxy may still be on somebody's prototype chain
                proxies.add(i)
            lines.append("POOL[%d] = %s;" % (i, o))
        else:
            lines.append("try { %s } catch (e) { print('mutation threw', e); }" % mutation(r, npool, proxies))
        lines.append("probe('s%d');" % s)
        if r.chance(0.3):
            lines.append("probe('s%d-again');" % s)
    lines.append("'end'")
    return "\n".join(lines)
