"""Batch delta debugging for JavaScript sources.

reduce(src, batch_test) -> smaller src. `batch_test(list_of_sources) -> list of bool` says
which candidates are still interesting (evaluated in one batch on the engines, so a round with
thousands of candidates costs about a second)."""
import re

TOKEN_RE = re.compile(r"""
    (?P<ws>\s+)
  | (?P<lc>//[^\n]*)
  | (?P<bc>/\*.*?\*/)
  | (?P<str>'(?:\\.|[^'\\\n])*'|"(?:\\.|[^"\\\n])*")
  | (?P<num>0[xX][0-9a-fA-F]+n?|0[bB][01]+n?|0[oO][0-7]+n?|(?:\d+\.?\d*(?:[eE][+-]?\d+)?|\.\d+(?:[eE][+-]?\d+)?)n?)
  | (?P<id>[A-Za-z_$#][A-Za-z0-9_$]*)
  | (?P<punct>>>>=|\.\.\.|===|!==|\*\*=|<<=|>>=|>>>|&&=|\|\|=|\?\?=|=>|==|!=|<=|>=|&&|\|\||\?\?|\?\.|\+\+|--|\+=|-=|\*=|/=|%=|&=|\|=|\^=|\*\*|<<|>>|[{}()\[\];,<>+\-*/%&|^!~?:=.@])
""", re.X | re.S)


def tokenize(src):
    toks = []
    i = 0
    n = len(src)
    while i < n:
        c = src[i]
        if c == "`":
            # template literal incl. nested ${ } as one token
            j = i + 1
            depth = 0
            while j < n:
                if src[j] == "\\":
                    j += 2
                    continue
                if depth == 0 and src[j] == "`":
                    break
                if src[j] == "$" and j + 1 < n and src[j + 1] == "{":
                    depth += 1
                    j += 2
                    continue
                if depth > 0 and src[j] == "{":
                    depth += 1
                elif depth > 0 and src[j] == "}":
                    depth -= 1
                elif depth > 0 and src[j] == "`":
                    # nested template: skip it naively
                    k = j + 1
                    while k < n and src[k] != "`":
                        k += 2 if src[k] == "\\" else 1
                    j = k
                j += 1
            toks.append(src[i:j + 1])
            i = j + 1
            continue
        m = TOKEN_RE.match(src, i)
        if not m:
            toks.append(c)
            i += 1
            continue
        if m.lastgroup not in ("ws", "lc", "bc"):
            toks.append(m.group(0))
        i = m.end()
    return toks


OPEN = {"(": ")", "[": "]", "{": "}"}
CLOSE = set(OPEN.values())


def join(toks):
    out = []
    prev = ""
    for t in toks:
        if prev and (prev[-1].isalnum() or prev[-1] in "_$") and (t[0].isalnum() or t[0] in "_$#"):
            out.append(" ")
        elif prev in ("+", "-", "++", "--") and t[0] in "+-":
            out.append(" ")
        elif prev == "/" and t[0] in "/*":
            out.append(" ")
        out.append(t)
        prev = t
    return "".join(out)


def match_brackets(toks):
    """returns dict open_index -> close_index (unbalanced input: best effort)"""
    st, m = [], {}
    for i, t in enumerate(toks):
        if t in OPEN:
            st.append(i)
        elif t in CLOSE and st:
            j = st.pop()
            m[j] = i
    return m


def candidates(toks):
    """yields token lists, each one edit away from toks"""
    m = match_brackets(toks)
    n = len(toks)
    # 1. delete a separator-delimited segment inside each group (and at top level)
    groups = [(-1, n)] + sorted(m.items())
    for (o, c) in groups:
        # split children by ; or , at depth 0 of this group
        segs = []
        start = o + 1
        i = o + 1
        while i < c:
            t = toks[i]
            if t in OPEN and i in m:
                i = m[i] + 1
                # a `}` followed by a statement start also ends a segment in blocks
                if t == "{" and (o == -1 or toks[o] == "{"):
                    if i < c and toks[i] not in (";", ",", ")", "catch", "finally", "else", "while", "(", ".", "[", "`") and toks[i] not in (
                            "+", "-", "*", "/", "%", "==", "===", "!=", "!==", "<", ">", "<=", ">=", "&&", "||", "??", "?", ":", "=", "in", "instanceof", "of"):
                        segs.append((start, i))
                        start = i
                continue
            if t in (";", ","):
                segs.append((start, i + 1))
                start = i + 1
            i += 1
        if start < c:
            segs.append((start, c))
        if len(segs) > 1 or (len(segs) == 1 and o != -1):
            for (a, b) in segs:
                if b > a:
                    yield toks[:a] + toks[b:]
            # delete halves / quarters of the segment list
            k = len(segs)
            for parts in (2, 4):
                if k >= parts * 2:
                    step = k // parts
                    for s in range(0, k, step):
                        a = segs[s][0]
                        b = segs[min(k, s + step) - 1][1]
                        yield toks[:a] + toks[b:]
    # 2. replace a group by a trivial one / by its contents
    for o, c in m.items():
        if c - o > 1:
            if toks[o] == "(":
                yield toks[:o + 1] + ["0"] + toks[c:]
                yield toks[:o + 1] + toks[c:]
            elif toks[o] == "[":
                yield toks[:o + 1] + toks[c:]
            else:
                yield toks[:o + 1] + toks[c:]
            # unwrap: contents instead of the group
            yield toks[:o] + toks[o + 1:c] + toks[c + 1:]
        # drop the whole group
        yield toks[:o] + toks[c + 1:]
        yield toks[:o] + ["0"] + toks[c + 1:]
    # 3. unwrap try { X } catch (e) { Y } [finally { Z }]  ->  X
    for i, t in enumerate(toks):
        if t == "try" and i + 1 < n and toks[i + 1] == "{" and (i + 1) in m:
            c1 = m[i + 1]
            j = c1 + 1
            end = j
            while j < n and toks[j] in ("catch", "finally"):
                j += 1
                if j < n and toks[j] == "(" and j in m:
                    j = m[j] + 1
                if j < n and toks[j] == "{" and j in m:
                    j = m[j] + 1
                end = j
            yield toks[:i] + toks[i + 2:c1] + toks[end:]
    # 4. binary operator simplification: drop `op rhs` or `lhs op` around single tokens
    for i, t in enumerate(toks):
        if t in ("+", "-", "*", "/", "%", "&", "|", "^", "<<", ">>", ">>>", "<", ">", "<=", ">=", "==", "!=", "===", "!==", "&&", "||", "??", ","):
            if i + 1 < n and toks[i + 1] not in OPEN and toks[i + 1] not in CLOSE:
                yield toks[:i] + toks[i + 2:]
            if i > 0 and toks[i - 1] not in OPEN and toks[i - 1] not in CLOSE:
                yield toks[:i - 1] + toks[i + 1:]
    # 5. delete single tokens (keywords like 'use strict', unary operators, labels)
    for i, t in enumerate(toks):
        if t not in OPEN and t not in CLOSE:
            yield toks[:i] + toks[i + 1:]
    # 6. literal simplification
    for i, t in enumerate(toks):
        if (t[0] in "'\"`" and len(t) > 2) or (t[0].isdigit() and t not in ("0", "1")):
            yield toks[:i] + ["0"] + toks[i + 1:]


def reduce(src, batch_test, max_rounds=400, max_candidates=1500, budget_s=180, chunk=192):
    """returns the smallest interesting source found within the time budget"""
    import time
    t_end = time.time() + budget_s
    toks = tokenize(src)
    cur = join(toks)
    if not batch_test([cur])[0]:
        # tokenisation changed the behaviour: reduce nothing
        return src
    rounds = 0
    while rounds < max_rounds and time.time() < t_end:
        rounds += 1
        seen = set()
        cands = []
        for c in candidates(toks):
            if len(c) >= len(toks):
                continue
            s = join(c)
            if s in seen:
                continue
            seen.add(s)
            cands.append((len(c), s, c))
        if not cands:
            break
        cands.sort(key=lambda x: x[0])
        cands = cands[:max_candidates * 3]
        best = None
        # smallest candidates first, in chunks: stop at the first chunk that contains a success
        for k in range(0, len(cands), chunk):
            part = cands[k:k + chunk]
            res = batch_test([c[1] for c in part])
            for ok, c in zip(res, part):
                if ok:
                    best = c
                    break
            if best is not None or time.time() > t_end:
                break
        if best is None:
            break
        toks = best[2]
        cur = best[1]
    return cur
