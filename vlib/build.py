"""Builds the harness crates against /repo's current working tree (cargo decides what is stale)."""
import fcntl
import os
import shutil
import subprocess
import sys
import time

VERIF = os.path.dirname(os.path.dirname(os.path.abspath(__file__)))
TARGETS = os.path.join(VERIF, ".targets")
REPO = "/repo"

ENV_BASE = {
    "CARGO_NET_OFFLINE": "true",
    "CARGO_TERM_COLOR": "never",
}


class BuildError(Exception):
    pass


def _sync_lock(crate_dir):
    src = os.path.join(REPO, "Cargo.lock")
    dst = os.path.join(crate_dir, "Cargo.lock")
    # The harness lock file starts from the repository's (pinned versions, resolvable offline);
    # cargo then adds the harness package itself.
    if not os.path.exists(dst):
        shutil.copyfile(src, dst)


_ALT_DONE = set()


def alt_repo():
    """VERIF_REPO=<dir> points the harness crates at another checkout of boa (used to try seeded changes in a
    scratch worktree without touching /repo). Registered checks never set it."""
    r = os.environ.get("VERIF_REPO", "").rstrip("/")
    return r if r and r != REPO else None


def _tag():
    r = alt_repo()
    if not r:
        return ""
    import hashlib
    return "-alt" + hashlib.sha1(r.encode()).hexdigest()[:8]


def crate_dir(crate):
    """directory of the harness crate (a copy with rewritten path dependencies when VERIF_REPO is set)"""
    src = os.path.join(VERIF, "harness", crate)
    r = alt_repo()
    if not r:
        return src
    dst = os.path.join(VERIF, ".work", "harness" + _tag(), crate)
    if dst in _ALT_DONE:
        return dst
    os.makedirs(os.path.dirname(dst), exist_ok=True)
    if os.path.exists(dst):
        shutil.rmtree(dst)
    shutil.copytree(src, dst, ignore=shutil.ignore_patterns("target"))
    _ALT_DONE.add(dst)
    ct = os.path.join(dst, "Cargo.toml")
    with open(ct) as f:
        t = f.read()
    with open(ct, "w") as f:
        f.write(t.replace('"/repo/', '"%s/' % r))
    if not os.path.exists(os.path.join(dst, "Cargo.lock")):
        shutil.copyfile(os.path.join(r, "Cargo.lock"), os.path.join(dst, "Cargo.lock"))
    return dst


def target_dir_for(crate, flavour):
    return os.path.join(TARGETS, (flavour if crate == "bvh" else "%s-%s" % (crate, flavour)) + _tag())


def ensure(crate="bvh", flavour="native", features=None, quiet=True, private=True):
    """Returns the path of the built binary. flavours: native | enum | asan | release"""
    cdir = crate_dir(crate)
    os.makedirs(TARGETS, exist_ok=True)
    target_dir = target_dir_for(crate, flavour)
    lock_path = os.path.join(TARGETS, "%s-%s%s.lock" % (crate, flavour, _tag()))
    env = dict(os.environ)
    env.update(ENV_BASE)
    env["CARGO_TARGET_DIR"] = target_dir
    cmd = ["cargo"]
    triple = None
    if flavour == "asan":
        cmd += ["+nightly"]
        env["RUSTFLAGS"] = "--cfg boa_verif -Zsanitizer=address -Cforce-frame-pointers=yes"
        triple = "x86_64-unknown-linux-gnu"
    cmd += ["build", "--offline"]
    if flavour == "release":
        cmd += ["--release"]
    if triple:
        cmd += ["--target", triple]
    feats = list(features or [])
    if flavour == "enum":
        feats.append("jsvalue-enum")
    if feats:
        cmd += ["--features", ",".join(feats)]
    with open(lock_path, "w") as lk:
        fcntl.flock(lk, fcntl.LOCK_EX)
        _sync_lock(cdir)
        t0 = time.time()
        p = subprocess.run(cmd, cwd=cdir, env=env, stdout=subprocess.PIPE, stderr=subprocess.STDOUT, text=True)
        if p.returncode != 0:
            tail = "\n".join(p.stdout.splitlines()[-60:])
            raise BuildError("build of %s/%s failed:\n%s" % (crate, flavour, tail))
        if not quiet:
            sys.stderr.write("[build] %s/%s ok in %.1fs\n" % (crate, flavour, time.time() - t0))
    prof = "release" if flavour == "release" else "debug"
    parts = [target_dir]
    if triple:
        parts.append(triple)
    parts += [prof, crate]
    built = os.path.join(*parts)
    if not private:
        return built
    # a private copy, so that a concurrent rebuild (another check starting) cannot pull the binary away
    import atexit
    d = os.path.join(VERIF, ".work", "bin")
    os.makedirs(d, exist_ok=True)
    dst = os.path.join(d, "%s-%s%s-%d" % (crate, flavour, _tag(), os.getpid()))
    if not os.path.exists(dst):
        with open(lock_path, "w") as lk:
            fcntl.flock(lk, fcntl.LOCK_EX)
            shutil.copy2(built, dst)
        atexit.register(lambda: os.path.exists(dst) and os.remove(dst))
    return dst
