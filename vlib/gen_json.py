"""Deterministic generators for check C18 (JSON.parse / JSON.stringify).

Everything is driven by a vlib.rng.Rng.  Strings are u16 strings (see models/jsonref.py).

  gen_value / gen_decorated   model values (plain JSON-representable, or with stringify decorations)
  value_to_js                 JS source that builds a model value (uses helpers of the in-program library)
  gen_text                    a VALID JSON text derived from the grammar with adversarial token spellings
  mutate                      token- and byte-level mutants of a valid text (most are invalid; the recogniser decides)
  INJECTION_TEXTS             JavaScript that is not JSON (boa evaluates `(text);` after validation)
  depth_probe                 nesting-depth probes
  gen_replacer / gen_space    replacer / indent arguments with their model description

`avoid` is a set of named shapes the main stream must not produce because an OPEN known finding covers them
(see known/c18_findings.json):
  'overflow-number'  a number token whose value is +-Infinity (1e400, 1.7976931348623159e308, 400 digits) or so close
                     below the overflow threshold that an approximate conversion overflows (1.7976931348623158e308,
                     1.797693134862315708e308: both must give the largest finite double). The generator simply stays
                     below 1e308 except for the listed tokens; check C18 filters with the exact trigger.
  'lone-surrogate'   a string or key containing an unpaired surrogate code unit (escaped \\ud800 or raw)
"""
from .models import jsonref as J
from .models.jsonref import Obj, HOLE, UNDEF, FUNC, SYM, Big, Boxed, ToJSON, CycleRef, to_u16

AVOID_OVERFLOW = "overflow-number"
AVOID_LONE = "lone-surrogate"

INF = float("inf")


# --------------------------------------------------------------------------------------------
# JS source helpers

def js_lit(s):
    """u16 string -> JS double-quoted string literal in pure printable ASCII; every code unit arrives exactly"""
    out = ['"']
    for ch in s:
        c = ord(ch)
        if 0x20 <= c <= 0x7E and ch not in '"\\':
            out.append(ch)
        else:
            out.append("\\u%04X" % c)
    out.append('"')
    return "".join(out)


def js_num(x):
    if x != x:
        return "NaN"
    if x == INF:
        return "Infinity"
    if x == -INF:
        return "-Infinity"
    if x == 0:
        return "-0" if J.f64_bits(x)[0] else "0"
    r = repr(x)
    if r.endswith(".0"):
        r = r[:-2]
    return r


def text_hash(s):
    h = 0
    for ch in s:
        h = (h * 31 + ord(ch)) % 1000003
    return h


# --------------------------------------------------------------------------------------------
# pools

def _pair(cp):
    return to_u16(chr(cp))


STRINGS = [
    "", "a", "ab", '"', "\\", "/", "\b\f\n\r\t", "".join(chr(i) for i in range(0x20)), "\x7f", "\x80\x9f", "\xa0",
    "\u2028\u2029", "\ufeff", "\uffff", "\ufffe", _pair(0x1F600), _pair(0x10000) + _pair(0x10FFFF), "x" + _pair(0x1D4B3) + "y",
    "__proto__", "constructor", "toJSON", "length", "\x00", "</script>", "\\u0041", "'", "1e400", "null", "[1,2]",
    '{"a":1}', "\u00e9\u00fc\u00df", "\u4e2d\u6587", "\u0627\u0644", " ", "\t", "\\\\\"\"", "\u0300", "\u200b\u200d",
    "\u2027\u202a", "\ud7ff\ue000",
]
LONE_STRINGS = ["\ud800", "\udc00", "\udfff", "\udbff", "\udc00\ud800", "\ud800\ud800\udc00", "a\ud83d", "\ude00b",
                "\ud83d" + "x" + "\ude00", _pair(0x1F600) + "\ud800"]

KEYS = ["", "a", "b", "c", "key", "__proto__", "constructor", "toString", "valueOf", "toJSON", "length", "0", "1", "2", "10", "7",
        "01", "-0", "-1", "1.5", "1e3", "4294967294", "4294967295", "4294967296", "9007199254740991", " ", "\n", "\u2028",
        "\u00e9", _pair(0x1F600), "a b", '"', "\\", "\x00", "\x1f", "hasOwnProperty", "__defineGetter__", "prototype", "x" * 40]

NUMBERS = [0.0, -0.0, 1.0, -1.0, 2.0, 10.0, 0.1, 0.5, -0.5, 1 / 3, 1e21, 1e20, 1e-6, 1e-7, -1e-7, 123456789012345680000.0,
           2.0 ** 53, 2.0 ** 53 + 2, 2.0 ** 31, 2.0 ** 32, -2.0 ** 31, 1.7976931348623157e308, -1.7976931348623157e308, 5e-324,
           -5e-324, 2.2250738585072014e-308, 2.225073858507201e-308, 123.456, 1.5e300, 4294967295.0, 0.000001, 1e100, 1.1e-10,
           100.0, 1000000.0, 1e15, 1e16, 1e17, 123456789.12345678, 0.30000000000000004, 9007199254740991.0, 1.0000000000000002,
           4.35, 0.1 + 0.7, 5e-7, 25.0, 3.14159, -273.15, 65535.0]

# spellings of VALID number tokens (the recogniser computes their values); the ones marked True belong to the 'overflow-number' class
NUMBER_TOKENS = [
    ("0", False), ("-0", False), ("0.0", False), ("-0.0", False), ("-0e5", False), ("-0.0e-0", False), ("0e0", False), ("0E+0", False),
    ("1", False), ("-1", False), ("10", False), ("1E5", False), ("1e+5", False), ("1e-5", False), ("0.1e1", False), ("1.0", False),
    ("1.50", False), ("123456789012345678901234567890", False), ("0.1000000000000000055511151231257827", False),
    ("9007199254740993", False), ("9007199254740993.0000000000000001", False), ("9007199254740992.9999999999999999", False),
    ("2.4703282292062327e-324", False), ("2.4703282292062328e-324", False), ("4.9406564584124654e-324", False),
    ("1.7976931348623157e308", False), ("1.7976931348623158e308", True), ("1.797693134862315708e308", True), ("1.797693134862315709e308", True), ("1e308", False), ("1e-400", False), ("-1e-400", False),
    ("0e400", False), ("0.0e999999", False), ("-0e99999999999999999999", False), ("1e-99999999999999999999", False),
    ("1" + "0" * 308, False), ("0." + "0" * 400 + "1", False), ("0." + "0" * 400 + "1e401", False), ("1" + "0" * 400 + "e-400", False),
    ("2.2250738585072011e-308", False), ("2.2250738585072012e-308", False), ("2.2250738585072014e-308", False),
    ("0.500000000000000166533453693773481063544750213623046875", False), ("1.00000000000000011102230246251565404236316680908203125", False),
    ("1.00000000000000011102230246251565404236316680908203124", False), ("1.00000000000000011102230246251565404236316680908203126", False),
    ("8.98846567431158e307", False), ("4294967296", False), ("0.000001", False), ("1e21", False), ("123e-2", False), ("5e-324", False),
    ("3e-324", False), ("2e-324", False), ("1e00005", False), ("1e-00005", False), ("100e-2", False), ("6.02214076e23", False),
    ("1.7976931348623159e308", True), ("1e309", True), ("1e400", True), ("-1e400", True), ("1e99999999999999999999", True),
    ("1" + "0" * 400, True), ("-1" + "0" * 309 + ".5", True), ("17976931348623158" + "0" * 292 + "1", True),
]


LONG_UNITS = ["a", "\u00e9", _pair(0x1F600), "\\", '"', "\n", "ab\u2028"]


def gen_number(r):
    k = r.below(10)
    if k < 5:
        return r.choice(NUMBERS)
    if k < 7:
        return float(r.range(-1000, 1000))
    if k < 8:
        return r.range(-10 ** 6, 10 ** 6) / r.choice([10.0, 100.0, 1000.0, 7.0, 3.0])
    # random bit pattern
    import struct
    while True:
        x = struct.unpack(">d", r.next().to_bytes(8, "big"))[0]
        if x == x and x not in (INF, -INF):
            return x


def gen_string(r, avoid=(), long_ok=True):
    k = r.below(120)
    if k < 48:
        s = r.choice(STRINGS)
    elif k < 54 and AVOID_LONE not in avoid:
        s = r.choice(LONE_STRINGS)
    elif k < 55 and long_ok:
        unit = r.choice(LONG_UNITS)
        s = unit * r.choice([100, 100, 255, 256, 256, 300, 1000])
    else:
        n = r.below(13)
        out = []
        for _ in range(n):
            c = r.below(12)
            if c < 4:
                out.append(chr(r.range(0x20, 0x7E)))
            elif c < 5:
                out.append(chr(r.below(0x20)))
            elif c < 6:
                out.append(r.choice(['"', "\\", "/", "\x7f", "\u2028", "\u2029", "\ufeff", "\xa0"]))
            elif c < 8:
                out.append(chr(r.range(0x80, 0xD7FF)))
            elif c < 9:
                out.append(chr(r.range(0xE000, 0xFFFF)))
            elif c < 11:
                out.append(_pair(r.range(0x10000, 0x10FFFF)))
            elif AVOID_LONE not in avoid:
                out.append(chr(r.range(0xD800, 0xDFFF)))
            else:
                out.append("z")
        s = "".join(out)
    if AVOID_LONE in avoid and J.has_lone_surrogate(s):
        return "q"
    return s


def gen_key(r, avoid=(), existing=()):
    k = r.below(10)
    if existing and k == 0:
        return r.choice(list(existing))  # duplicate
    if k < 6:
        return r.choice(KEYS)
    if k < 7:
        return str(r.below(20))
    return gen_string(r, avoid, long_ok=False)


def gen_value(r, depth=0, max_depth=12, avoid=(), nonfinite=False, size=None):
    """plain JSON-representable model value. size: remaining node budget (list with one int)"""
    if size is None:
        size = [60]
    size[0] -= 1
    leaf = depth >= max_depth or size[0] <= 0 or r.below(10) < 3 + depth // 3
    if leaf:
        k = r.below(12)
        if k < 1:
            return None
        if k < 2:
            return True
        if k < 3:
            return False
        if k < 7:
            x = gen_number(r)
            if nonfinite and r.below(12) == 0:
                x = r.choice([float("nan"), INF, -INF])
            return x
        if k < 11:
            return gen_string(r, avoid)
        return [] if r.below(2) else Obj()
    if r.below(2):
        n = r.choice([0, 1, 1, 2, 2, 3, 4, 6])
        return [gen_value(r, depth + 1, max_depth, avoid, nonfinite, size) for _ in range(n)]
    n = r.choice([0, 1, 1, 2, 2, 3, 4, 6])
    pairs = []
    for _ in range(n):
        k = gen_key(r, avoid, [p[0] for p in pairs])
        pairs.append((k, gen_value(r, depth + 1, max_depth, avoid, nonfinite, size)))
    return Obj(pairs)


def gen_deep_value(r, depth, avoid=()):
    """a spine of exactly `depth` containers with small siblings"""
    v = gen_value(r, 12, 12, avoid)
    for _ in range(depth):
        sib = gen_value(r, 11, 12, avoid)
        if r.below(2):
            v = r.choice([[v], [sib, v], [v, sib]])
        else:
            v = Obj(r.choice([[("a", v)], [(gen_key(r, avoid), sib), ("k", v)], [("0", v), ("z", sib)]]))
    return v


def gen_decorated(r, depth=0, max_depth=6, avoid=(), size=None, allow_cycle=True):
    """model value with stringify decorations. Returns the value; CycleRef placeholders must be resolved with
    jsonref.resolve_cycles (and FIX(...) in the program)."""
    if size is None:
        size = [40]
    size[0] -= 1
    leaf = depth >= max_depth or size[0] <= 0 or r.below(10) < 3 + depth // 2
    if leaf:
        k = r.below(24)
        if k < 2:
            return UNDEF
        if k < 4:
            return FUNC
        if k < 6:
            return SYM
        if k < 7:
            return Big(r.choice([0, 1, -5, 2 ** 64]))
        if k < 9:
            return Boxed("num", r.choice([3.0, -0.0, float("nan"), 1e21, 0.1, INF]))
        if k < 11:
            return Boxed("str", gen_string(r, avoid, long_ok=False))
        if k < 13:
            return Boxed("bool", r.below(2) == 1)
        if k < 14:
            return Boxed("big", 7)
        if k < 16:
            return r.choice([float("nan"), INF, -INF, -0.0])
        if k < 19:
            mode = "key" if r.below(3) == 0 else "const"
            return ToJSON(gen_value(r, 10, 12, avoid, True, [6]) if r.below(3) else UNDEF, mode)
        if k < 20 and allow_cycle and depth > 0:
            return CycleRef(r.below(depth))
        return gen_value(r, 11, 12, avoid, True, [4])
    kind = r.below(5)
    if kind < 2:
        n = r.choice([1, 2, 3, 4])
        out = []
        for _ in range(n):
            if r.below(8) == 0:
                out.append(HOLE)
            else:
                out.append(gen_decorated(r, depth + 1, max_depth, avoid, size, allow_cycle))
        return out
    if kind == 2 and r.below(2):
        # toJSON returning a plain structure
        return ToJSON(gen_value(r, 9, 12, avoid, True, [8]), "const")
    n = r.choice([1, 2, 3, 4])
    pairs = []
    for _ in range(n):
        k = gen_key(r, avoid, [p[0] for p in pairs])
        pairs.append((k, gen_decorated(r, depth + 1, max_depth, avoid, size, allow_cycle)))
    o = Obj(pairs)
    if r.below(4) == 0:
        hk = r.choice(["hid", "a", "0", "zz"])
        if not o.has(hk):
            o.hidden.append(("nonenum", hk, gen_value(r, 11, 12, avoid, False, [3])))
    if r.below(4) == 0:
        o.hidden.append(("sym", "s", gen_value(r, 11, 12, avoid, False, [3])))
    return o


def contains(v, pred, _seen=None):
    """does the model value contain a node satisfying pred (strings: also keys)"""
    if _seen is None:
        _seen = set()
    if pred(v):
        return True
    if isinstance(v, list):
        if id(v) in _seen:
            return False
        _seen.add(id(v))
        return any(contains(x, pred, _seen) for x in v)
    if isinstance(v, Obj):
        if id(v) in _seen:
            return False
        _seen.add(id(v))
        return any(pred(k) or contains(x, pred, _seen) for k, x in v.items()) or any(contains(x, pred, _seen) for _, _, x in v.hidden)
    if isinstance(v, ToJSON):
        return contains(v.ret, pred, _seen)
    if isinstance(v, Boxed):
        return pred(v.prim)
    return False


def has_lone(v):
    return contains(v, lambda x: isinstance(x, str) and J.has_lone_surrogate(x))


def value_depth(v):
    if isinstance(v, list):
        return 1 + max([value_depth(x) for x in v if x is not HOLE] + [0])
    if isinstance(v, Obj):
        return 1 + max([value_depth(x) for _, x in v.items()] + [0])
    return 0


def value_features(v, f):
    """feature histogram of a model value"""
    if v is None:
        f.add("null")
    elif isinstance(v, bool):
        f.add("bool")
    elif isinstance(v, float):
        if v != v or v in (INF, -INF):
            f.add("num-nonfinite")
        elif v == 0 and J.f64_bits(v)[0]:
            f.add("num-negzero")
        elif v == int(v) and abs(v) < 1e21:
            f.add("num-int")
        elif abs(v) >= 1e21 or abs(v) < 1e-6:
            f.add("num-exp")
        else:
            f.add("num-frac")
    elif isinstance(v, str):
        if J.has_lone_surrogate(v):
            f.add("str-lone-surrogate")
        elif any(0xD800 <= ord(c) <= 0xDFFF for c in v):
            f.add("str-pair")
        if any(ord(c) < 0x20 for c in v):
            f.add("str-control")
        if any(c in '"\\' for c in v):
            f.add("str-quote-backslash")
        if "\u2028" in v or "\u2029" in v:
            f.add("str-2028")
        if len(v) >= 100:
            f.add("str-long")
        f.add("string")
    elif isinstance(v, list):
        f.add("array")
        for x in v:
            if x is HOLE:
                f.add("hole")
            else:
                value_features(x, f)
    elif isinstance(v, Obj):
        f.add("object")
        ks = v.keys()
        if "__proto__" in ks:
            f.add("key-__proto__")
        if any(J.array_index(k) is not None for k in ks):
            f.add("key-index")
        if "" in ks:
            f.add("key-empty")
        for k, x in v.items():
            value_features(x, f)
        for kind, _, _ in v.hidden:
            f.add("hidden-" + kind)
    elif v is UNDEF:
        f.add("undefined")
    elif v is FUNC:
        f.add("function")
    elif v is SYM:
        f.add("symbol")
    elif isinstance(v, Big):
        f.add("bigint")
    elif isinstance(v, Boxed):
        f.add("boxed-" + v.kind)
    elif isinstance(v, ToJSON):
        f.add("toJSON-" + v.mode)
    elif isinstance(v, CycleRef):
        f.add("cycle")


def value_to_js(v):
    """JS expression building the model value (inside the C18 in-program library: TJ, HN, HS, CY)"""
    if v is None:
        return "null"
    if v is True:
        return "true"
    if v is False:
        return "false"
    if isinstance(v, float):
        return js_num(v)
    if isinstance(v, str):
        return js_lit(v)
    if v is UNDEF:
        return "undefined"
    if v is FUNC:
        return "function(){}"
    if v is SYM:
        return 'Symbol("y")'
    if isinstance(v, Big):
        return "%dn" % v.n if v.n >= 0 else "(-%dn)" % -v.n
    if isinstance(v, Boxed):
        if v.kind == "num":
            return "new Number(%s)" % js_num(v.prim)
        if v.kind == "str":
            return "new String(%s)" % js_lit(v.prim)
        if v.kind == "bool":
            return "new Boolean(%s)" % ("true" if v.prim else "false")
        return "Object(%dn)" % v.prim
    if isinstance(v, ToJSON):
        if v.mode == "key":
            return "TJ(function(k){TL(k);return k})"
        return "TJ(function(k){TL(k);return %s})" % value_to_js(v.ret)
    if isinstance(v, CycleRef):
        return "new CY(%d)" % v.up
    if isinstance(v, list):
        parts = ["" if x is HOLE else value_to_js(x) for x in v]
        s = ",".join(parts)
        if v and v[-1] is HOLE:
            s += ","
        return "[" + s + "]"
    if isinstance(v, Obj):
        # computed keys: every key (also "__proto__") becomes an own data property, created in this order;
        # duplicates were already merged by Obj (last value, first position)
        # NOTE: creation order must reproduce Obj's order of the *named* keys; index keys sort themselves
        s = "{" + ",".join("[%s]:%s" % (js_lit(k), value_to_js(x)) for k, x in v.items()) + "}"
        for kind, k, x in v.hidden:
            if kind == "nonenum":
                s = "HN(%s,%s,%s)" % (s, js_lit(k), value_to_js(x))
            else:
                s = "HS(%s,%s,%s)" % (s, js_lit(k), value_to_js(x))
        return s
    raise AssertionError("no JS for %r" % (v,))


# --------------------------------------------------------------------------------------------
# replacer / space arguments

def _rf_id(holder, key, value, log):
    log.append("r:%s:%s:%s" % (J.holder_tag(holder), J.dump(key), J.js_typeof(value)))
    return value


def _rf_double(holder, key, value, log):
    if isinstance(value, float):
        return value * 2
    return value


def _rf_dropodd(holder, key, value, log):
    if len(key) % 2 == 1:
        return UNDEF
    return value


def _rf_strlen(holder, key, value, log):
    if isinstance(value, str):
        return float(len(value))
    return value


def _rf_expand(holder, key, value, log):
    if value is True:
        return [None, "x", Obj([("k", 1.0)])]
    return value


def _rf_root(holder, key, value, log):
    if key == "":
        return Obj([("root", 1.0), ("0", "z")])
    return value


def _rf_undef(holder, key, value, log):
    return UNDEF


REPLACER_FUNCS = {
    "id": ("function(k,v){RL(this,k,v);return v}", _rf_id),
    "double": ("function(k,v){return typeof v==='number'?v*2:v}", _rf_double),
    "dropodd": ("function(k,v){return k.length%2===1?undefined:v}", _rf_dropodd),
    "strlen": ("function(k,v){return typeof v==='string'?v.length:v}", _rf_strlen),
    "expand": ('function(k,v){return v===true?[null,"x",{k:1}]:v}', _rf_expand),
    "root": ('function(k,v){return k===""?{root:1,"0":"z"}:v}', _rf_root),
    "undef": ("function(k,v){return undefined}", _rf_undef),
}


def collect_keys(v, out, _seen=None):
    if _seen is None:
        _seen = set()
    if id(v) in _seen:
        return
    if isinstance(v, list):
        _seen.add(id(v))
        for x in v:
            collect_keys(x, out, _seen)
    elif isinstance(v, Obj):
        _seen.add(id(v))
        for k, x in v.items():
            if k not in out:
                out.append(k)
            collect_keys(x, out, _seen)
    elif isinstance(v, ToJSON):
        collect_keys(v.ret, out, _seen)


def gen_replacer(r, value, avoid=()):
    """returns (js source, model replacer for jsonref.stringify, tag)"""
    k = r.below(20)
    if k < 7:
        return "undefined", None, "none"
    if k < 12:
        name = r.choice(sorted(REPLACER_FUNCS))
        src, fn = REPLACER_FUNCS[name]
        return src, ("fn", fn), "fn-" + name
    if k < 18:
        keys = []
        collect_keys(value, keys)
        items = []
        n = r.choice([0, 1, 2, 3, 5])
        for _ in range(n):
            c = r.below(12)
            if c < 5 and keys:
                items.append(r.choice(keys))
            elif c < 6:
                items.append(r.choice(["__proto__", "constructor", "toJSON", "hid", "a", "0", ""]))
            elif c < 8:
                items.append(r.choice([0.0, 1.0, -0.0, 1.5, 1e21, 10.0, float("nan"), 2.0, 7.0]))
            elif c < 9:
                items.append(Boxed("num", r.choice([1.0, 0.0, 2.0])))
            elif c < 10:
                items.append(Boxed("str", r.choice(["a", "b", "key", "0"])))
            else:
                items.append(r.choice([None, True, UNDEF, SYM, Obj(), [], Boxed("bool", True)]))
        if items and r.below(4) == 0:
            items.append(items[0])  # duplicate entry
        return "[" + ",".join(value_to_js(x) for x in items) + "]", ("array", items), "array"
    other = r.choice(["null", "{}", "1", '"a"', "true", "({length:1,0:\"a\"})"])
    return other, ("other",), "other"


def gen_space(r, avoid=()):
    """returns (js source, model space, tag, whitespace_only)"""
    k = r.below(20)
    if k < 6:
        return "undefined", ("none",), "none", True
    if k < 11:
        x = r.choice([0.0, 1.0, 2.0, 4.0, 10.0, 11.0, 100.0, 3.7, 0.9, -1.0, -0.0, float("nan"), INF, -INF, 1e21, 9.99])
        return js_num(x), ("num", x), "num", True
    if k < 15:
        s = r.choice([" ", "\t", "\n", "  ", " \t\r\n", "", " " * 10, " " * 11, "\t" * 25, "\r"])
        return js_lit(s), ("str", s), "str-ws", True
    if k < 17:
        cand = ["--", "ab", "0123456789ABCDEF", '"', "\\", "\u2028", "x" * 9 + _pair(0x1F600), _pair(0x1F600) * 6, "//", "\u00a0"]
        if AVOID_LONE not in avoid:
            cand.append("\ud800")
        s = r.choice(cand)
        return js_lit(s), ("str", s), "str-other", False
    if k < 18:
        x = r.choice([3.0, 12.0, 0.0])
        return "new Number(%s)" % js_num(x), ("boxnum", x), "boxnum", True
    if k < 19:
        s = r.choice(["  ", "\t", " " * 12])
        return "new String(%s)" % js_lit(s), ("boxstr", s), "boxstr", True
    o = r.choice(["null", "true", "{}", "[2]", "function(){}", "new Boolean(true)", "5n", 'Symbol("s")'])
    return o, ("other", o), "other", True


# --------------------------------------------------------------------------------------------
# texts from the grammar

WS_FORMS = ["", "", "", " ", " ", "\n", "\t", "\r", "  ", "\r\n", " \t\n\r ", "\n\n\n", "    "]


def _ws(r):
    return r.choice(WS_FORMS)


def gen_number_token(r, avoid=()):
    k = r.below(10)
    if k < 4:
        while True:
            tok, over = r.choice(NUMBER_TOKENS)
            if not (over and AVOID_OVERFLOW in avoid):
                return tok
    if k < 6:
        return str(r.range(-100000, 100000))
    # random derivation of the number grammar
    s = "-" if r.below(3) == 0 else ""
    if r.below(4) == 0:
        s += "0"
    else:
        s += str(r.range(1, 9)) + "".join(str(r.below(10)) for _ in range(r.choice([0, 0, 1, 2, 5, 16, 17, 20, 30])))
    if r.below(2):
        s += "." + "".join(str(r.below(10)) for _ in range(r.choice([1, 1, 2, 3, 17, 25, 40])))
    if r.below(3) == 0:
        s += r.choice(["e", "E"]) + r.choice(["", "+", "-"]) + r.choice(["0", "1", "5", "00", "007", "10", "22", "100", "300", "307", "308", "323", "324"])
    if AVOID_OVERFLOW in avoid:
        info = J.ParseInfo()
        J.parse(s, info)
        if info.edge_numbers:
            return "1e308"
    return s


SIMPLE_ESC = {'"': '\\"', "\\": "\\\\", "/": "\\/", "\b": "\\b", "\f": "\\f", "\n": "\\n", "\r": "\\r", "\t": "\\t"}


def _uesc(c, r):
    h = "%04x" % c
    k = r.below(3)
    if k == 0:
        h = h.upper()
    elif k == 1:
        h = "".join(ch.upper() if r.below(2) else ch for ch in h)
    return "\\u" + h


def spell_string(r, s, avoid=()):
    """a valid JSON string token whose value is exactly s (random choice between raw and escaped spellings).
    With AVOID_LONE a surrogate pair is spelled raw+raw or escaped+escaped, never mixed (a mixed spelling leaves an
    unpaired surrogate code unit in the text itself)."""
    out = ['"']
    pair_mode = None
    for i, ch in enumerate(s):
        c = ord(ch)
        if AVOID_LONE in avoid and 0xD800 <= c <= 0xDFFF:
            if J.is_high(c):
                pair_mode = r.below(4) == 0
            out.append(_uesc(c, r) if pair_mode else ch)
            continue
        if c < 0x20:
            if ch in SIMPLE_ESC and r.below(2):
                out.append(SIMPLE_ESC[ch])
            else:
                out.append(_uesc(c, r))
        elif ch in '"\\':
            out.append(SIMPLE_ESC[ch] if r.below(4) else _uesc(c, r))
        elif ch == "/":
            out.append(r.choice(["/", "/", "\\/", "\\u002f", "\\u002F"]))
        elif r.below(6) == 0:
            out.append(_uesc(c, r))
        else:
            out.append(ch)
    out.append('"')
    return "".join(out)


def gen_text(r, depth=0, max_depth=12, avoid=(), size=None):
    """a valid JSON text (u16) with adversarial spellings"""
    if size is None:
        size = [50]
    return _ws(r) + _gen_text_value(r, depth, max_depth, avoid, size) + _ws(r)


def _gen_text_value(r, depth, max_depth, avoid, size):
    size[0] -= 1
    leaf = depth >= max_depth or size[0] <= 0 or r.below(10) < 3 + depth // 3
    if leaf:
        k = r.below(12)
        if k < 1:
            return "null"
        if k < 2:
            return "true"
        if k < 3:
            return "false"
        if k < 7:
            return gen_number_token(r, avoid)
        if k < 11:
            return spell_string(r, gen_string(r, avoid), avoid)
        return r.choice(["[]", "{}", "[ ]", "{\n}", "[\t]"])
    if r.below(2):
        n = r.choice([1, 1, 2, 2, 3, 4, 6])
        items = [_ws(r) + _gen_text_value(r, depth + 1, max_depth, avoid, size) + _ws(r) for _ in range(n)]
        return "[" + ",".join(items) + "]"
    n = r.choice([1, 1, 2, 2, 3, 4, 6])
    items = []
    keys = []
    for _ in range(n):
        k = gen_key(r, avoid, keys)
        keys.append(k)
        items.append(_ws(r) + spell_string(r, k, avoid) + _ws(r) + ":" + _ws(r) + _gen_text_value(r, depth + 1, max_depth, avoid, size) + _ws(r))
    return "{" + ",".join(items) + "}"


def gen_deep_text(r, depth, avoid=()):
    """valid text with a spine of exactly `depth` containers"""
    t = _gen_text_value(r, 12, 12, avoid, [1])
    for _ in range(depth):
        if r.below(2):
            t = r.choice(["[%s]", "[ %s ]", "[1,%s]", "[%s,null]"]) % t
        else:
            t = r.choice(['{"a":%s}', '{ "k" : %s }', '{"0":1,"z":%s}', '{"__proto__":%s}']) % t
    return t


# --------------------------------------------------------------------------------------------
# mutants

BAD_WS = ["\x0b", "\x0c", "\xa0", "\ufeff", "\u2028", "\u2029", "\x85", "\u1680", "\u2003", "\u3000", "\x00", "\x1f", "\u200b", "\u180e"]
BAD_NUMBERS = ["01", "00", "-01", "+1", "+0", ".5", "-.5", "5.", "1.e3", "1e", "1e+", "1E-", "0x10", "0X1F", "1_000", "--1", "- 1", "-",
               "0b1", "0o7", "010", "1n", "0n", "1.2.3", "1e2e3", "1e2.5", "1f", "1d", "Infinity", "-Infinity", "NaN", "-NaN", "1 2",
               "0.", "-0.", ".0", "0e", "0e+", "1e 5", "1 e5", "\uff11", "\u0661", "1,5", "1'000", "0.1e", "-a", "1.-5", "1.+5", "1.e", "e5",
               "-e5", "+", "1+", "1-", "1ee5", "0_0", "1__0", "0.0_1", "1e1_0", "08", "09", "1.0n", "0x", "1L", "1u"]
BARE_WORDS = ["undefined", "True", "TRUE", "False", "FALSE", "Null", "NULL", "nul", "nulll", "tru", "truee", "fals", "none", "nil",
              "a", "abc", "$", "_", "this", "void 0", "yes", "no", "t", "f", "n", "nan", "inf", "NaN", "Infinity", "null null",
              "nu\\u006cl", "n\\u0075ll", "\\u006eull", "tr\\u0075e", "true\u200b", "\u0274ull"]
BAD_ESCAPES = ["\\x41", "\\'", "\\a", "\\v", "\\0", "\\e", "\\u12", "\\u", "\\u123", "\\u{41}", "\\u{1F600}", "\\U0041", "\\u004g", "\\u 041",
               "\\u-041", "\\u+041", "\\u00 41", "\\ud83d\\u", "\\ud83d\\ude0", "\\ud83d\\", "\\ud83", "\\N", "\\B", "\\T", "\\\n", "\\\r\n",
               "\\ ", "\\1", "\\8", "\\9", "\\00", "\\012", "\\c", "\\uD83D\\UDE00", "\\ux041", "\\u0x41", "\\\u2028", "\\\u00e9"]
COMMENTS = ["//x\n", "// x", "/* x */", "/**/", "/*", "#x\n", "<!-- x -->", "<!--x\n", "--> x\n", "/*\n*/", "//\u2028"]

INJECTION_TEXTS = [
    "1);(2", "1);(2);(3", "1//", "[1]/*", "[1]/**/", '{"a":1}.a', "(1)", "((1))", "[1][0]", '"a"+"b"', "1,2", "[1],[2]", "new Object()",
    "`x`", "`1`", "/re/", "/re/g", "a=1", '{"a":function(){}}', "{a:1}", '{"a":1,}', "[1,]", "[,]", "[,1]", "[1,,2]", '{get "a"(){}}',
    '{get "a"(){return 1}}', '{"a"(){}}', '{["a"]:1}', '{..."ab"}', "{...{}}", "[...[1]]", "[...\"ab\"]", "1n", "0o7", "010", "null ?? 1",
    "true?1:2", "this", '-"1"', "- 1", "-(1)", "- -1", "-\n1", "-\t1", "+1", "!0", "~1", "void 0", "typeof 1", "-Infinity", "-null", "-true",
    '-"a"', "-[]", "-{}", "1;", "1;2", ";", "()", "(", ")", "1)", "(1", "1)//", "1);//", "1\n);(2", "[1]);([2]", '{"a":1});({"b":2}',
    "1/1", "1*1", "1-1", "1+1", "2**2", "1<2", "1==1", "1&&2", "1|2", "a", "x=>x", "()=>1", "function(){}", "class{}", "new.target",
    "import.meta", "super", "yield", "await 1", "async()=>1", '{"a":1}[\'a\']', "[1].length", '"abc".length', '"a"["length"]', "1 .x",
    "1..x", "1.0.x", '{"a":1}?.a', "[1]?.[0]", "null?.x", '"a"`b`', "1 in [1]", "1 instanceof Object", "delete 1", "[1]=[2]", "[a]=[1]",
    '{"a":b}', '{"a":1}=1', '{"__proto__":null,"__proto__":null}x', '{"a" :1 , "b":\n2 }//', "0,0", "[0],0", '"\\\n"', '"a\\\nb"',
    "'a'", "'\\''", '"a" "b"', '"a"\n"b"', "[1 2]", '{"a":1 "b":2}', '{"a" 1}', '{"a":}', '{:1}', '{"a"}', '{1:2}', "{1:2}", '{null:1}',
    '{true:1}', "{'a':1}", "{a:1}", '{"a":1;"b":2}', "[1;2]", '{"a"=1}', '{"a"::1}', "[1:2]", "[[]", "[]]", "{{}}", "{[]}", "[{]}", '{"a":[}',
    "[", "]", "{", "}", '"', '"a', 'a"', ",", ":", "[,", "{,}", "[1,,]", "[,,]", '{"a":1,,"b":2}', "", " ", "\n", "\t\r\n ", "\x00", "1\x00",
    "\x001", "[1]\x00", "nul", "nulL", "true1", "1true", "truefalse", "nullnull", "[1]true", "{}[]", "[]{}", "{}{}", "[][]", "1 1", '"a""b"',
    "0 0", "-", "--0", "-0-0", "0-0", "-0 -0", "0x0", "0X0", "0b0", "0B0", "0o0", "0O0", "00", "-00", "0e", "0E", "0.e1", ".0e1", "0.0.0",
    "<!--\n1", "1\n-->", "1<!--", "#!x\n1", "\ufeff1", "1\ufeff", "\ufeff", "\ufeff[]", "\ufffe1", "\xa01", "1\xa0", "\x0b1", "1\x0c", "\u20281",
    "1\u2029", "[1,\u20282]", "[1\xa0,2]", "{\x0b}", "[\x0c]", '{"a"\xa0:1}', '{"a":\ufeff1}', "\u30001", "\u16801", "\x851", "\u200b1",
    '"\x00"', '"\x01"', '"\x08"', '"\t"', '"\n"', '"\x0b"', '"\x0c"', '"\r"', '"\x1f"', '"a\nb"', '"\r\n"',
    '"\\"', '"\\\\\\"', '"\\u"', '"\\u0"', '"\\u00"', '"\\u000"', '"\\u000g"', '"\\uD800\\u"', '"\\x00"', "\"\\'\"", '"\\0"', '"\\v"', '"\\a"',
    '"\\u{0}"', '"\\U0000"', '"\\u00e9', '"\\', '"\\u', '"abc\\',
]


def _token_spans(text):
    """rough token spans of a VALID text: list of (kind, start, end) for strings, numbers, words, punctuation, ws"""
    spans = []
    i, n = 0, len(text)
    while i < n:
        c = text[i]
        if c == '"':
            j = i + 1
            while j < n and text[j] != '"':
                j += 2 if text[j] == "\\" else 1
            spans.append(("str", i, min(n, j + 1)))
            i = j + 1
        elif c in "-0123456789":
            j = i + 1
            while j < n and text[j] in "0123456789.eE+-":
                j += 1
            spans.append(("num", i, j))
            i = j
        elif c in "tfn":
            j = i
            while j < n and "a" <= text[j] <= "z":
                j += 1
            spans.append(("word", i, j))
            i = j
        elif c in J.WS:
            j = i
            while j < n and text[j] in J.WS:
                j += 1
            spans.append(("ws", i, j))
            i = j
        else:
            spans.append((c, i, i + 1))
            i += 1
    return spans


def _pick(r, spans, kinds):
    c = [s for s in spans if s[0] in kinds]
    return r.choice(c) if c else None


MUTATORS = []


def mutator(name):
    def deco(f):
        MUTATORS.append((name, f))
        return f
    return deco


@mutator("trailing-comma")
def _m_trailing_comma(r, t, sp):
    s = _pick(r, sp, ("]", "}"))
    if not s:
        return None
    return t[:s[1]] + r.choice([",", ", ", ",\n", ",,"]) + t[s[1]:]


@mutator("leading-comma")
def _m_leading_comma(r, t, sp):
    s = _pick(r, sp, ("[", "{"))
    if not s:
        return None
    return t[:s[2]] + "," + t[s[2]:]


@mutator("double-comma")
def _m_double_comma(r, t, sp):
    s = _pick(r, sp, (",",))
    if not s:
        return None
    return t[:s[1]] + r.choice([",,", ", ,", ",null,,"]) + t[s[2]:]


@mutator("drop-comma")
def _m_drop_comma(r, t, sp):
    s = _pick(r, sp, (",",))
    if not s:
        return None
    return t[:s[1]] + r.choice(["", " ", ";", "\n"]) + t[s[2]:]


@mutator("colon")
def _m_colon(r, t, sp):
    s = _pick(r, sp, (":",))
    if not s:
        return None
    return t[:s[1]] + r.choice(["", "::", "=", "=>", ",", " "]) + t[s[2]:]


@mutator("comment")
def _m_comment(r, t, sp):
    pos = r.below(len(t) + 1)
    s = _pick(r, sp, ("ws", ",", ":", "[", "{", "]", "}"))
    if s and r.below(4):
        pos = s[2]
    return t[:pos] + r.choice(COMMENTS) + t[pos:]


@mutator("single-quotes")
def _m_single(r, t, sp):
    s = _pick(r, sp, ("str",))
    if not s:
        return None
    body = t[s[1] + 1:s[2] - 1]
    return t[:s[1]] + r.choice(["'%s'", "`%s`", "\u201c%s\u201d", "'%s\"", "\"%s'"]) % body + t[s[2]:]


@mutator("unquoted-key")
def _m_unquoted(r, t, sp):
    for _ in range(4):
        s = _pick(r, sp, ("str",))
        if not s:
            return None
        rest = t[s[2]:].lstrip(J.WS)
        if rest.startswith(":"):
            return t[:s[1]] + r.choice(["a", "key", "1", "null", "$x", "a-b", "1e3", "true"]) + t[s[2]:]
    return None


@mutator("bare-word")
def _m_bare(r, t, sp):
    s = _pick(r, sp, ("word", "num", "str"))
    if not s:
        return None
    return t[:s[1]] + r.choice(BARE_WORDS) + t[s[2]:]


@mutator("word-case")
def _m_wordcase(r, t, sp):
    s = _pick(r, sp, ("word",))
    if not s:
        return None
    w = t[s[1]:s[2]]
    k = r.below(4)
    if k == 0:
        w2 = w.upper()
    elif k == 1:
        w2 = w.capitalize()
    elif k == 2:
        w2 = w[:-1]
    else:
        w2 = w + r.choice(["e", "l", "1", "_", "\u200b"])
    return t[:s[1]] + w2 + t[s[2]:]


@mutator("bom")
def _m_bom(r, t, sp):
    k = r.below(4)
    if k == 0:
        return "\ufeff" + t
    if k == 1:
        return t + "\ufeff"
    if k == 2:
        return "\u00ef\u00bb\u00bf" + t
    return "\ufffe" + t


@mutator("bad-whitespace")
def _m_badws(r, t, sp):
    w = r.choice(BAD_WS)
    s = _pick(r, sp, ("ws", ",", ":", "[", "{", "]", "}"))
    k = r.below(4)
    if k == 0 or not s:
        return r.choice([w + t, t + w])
    if s[0] == "ws" and k == 1:
        return t[:s[1]] + w + t[s[2]:]
    return t[:s[2]] + w + t[s[2]:]


@mutator("bad-number")
def _m_badnum(r, t, sp):
    s = _pick(r, sp, ("num",))
    if not s:
        s = _pick(r, sp, ("word", "str"))
        if not s:
            return None
    return t[:s[1]] + r.choice(BAD_NUMBERS) + t[s[2]:]


@mutator("number-edit")
def _m_numedit(r, t, sp):
    s = _pick(r, sp, ("num",))
    if not s:
        return None
    w = t[s[1]:s[2]]
    k = r.below(8)
    if k == 0:
        w2 = "0" + w.lstrip("-") if not w.startswith("-") else "-0" + w[1:]
    elif k == 1:
        w2 = "+" + w
    elif k == 2:
        w2 = w + "."
    elif k == 3:
        w2 = w + r.choice(["e", "E", "e+", "e-"])
    elif k == 4:
        w2 = "." + w.lstrip("-")
    elif k == 5:
        w2 = w.replace(".", "..", 1) if "." in w else w + ".5.5"
    elif k == 6:
        w2 = "-" + w
    else:
        w2 = w + r.choice(["n", "f", "x", "_1", "px", "%", "\u0660"])
    return t[:s[1]] + w2 + t[s[2]:]


@mutator("control-in-string")
def _m_ctrl(r, t, sp):
    s = _pick(r, sp, ("str",))
    if not s:
        return None
    pos = r.range(s[1] + 1, s[2] - 1)
    # not inside an escape sequence (that would test something else): retry a few positions
    return t[:pos] + chr(r.below(0x20)) + t[pos:]


@mutator("allowed-raw-in-string")
def _m_rawok(r, t, sp):
    # these stay VALID (when not splitting an escape): DEL, C1, U+2028/2029, BOM, noncharacters
    s = _pick(r, sp, ("str",))
    if not s:
        return None
    pos = r.range(s[1] + 1, s[2] - 1)
    return t[:pos] + r.choice(["\x7f", "\x80", "\x9f", "\u2028", "\u2029", "\ufeff", "\uffff", "\xa0", "'", "/", "\x20"]) + t[pos:]


@mutator("bad-escape")
def _m_badesc(r, t, sp):
    s = _pick(r, sp, ("str",))
    if not s:
        return None
    pos = r.range(s[1] + 1, s[2] - 1)
    return t[:pos] + r.choice(BAD_ESCAPES) + t[pos:]


@mutator("truncated-surrogate-escape")
def _m_trunc_sur(r, t, sp):
    # valid text containing an escaped pair, then cut pieces out of the escape
    s = _pick(r, sp, ("str",))
    if not s:
        return None
    pos = r.range(s[1] + 1, s[2] - 1)
    esc = "\\ud83d\\ude00"
    cut = r.choice([esc[:k] for k in range(1, len(esc))] + [esc[:6] + esc[7:], esc[:6] + "\\u", esc[:6] + "\\ude0g", esc[6:] + esc[:6],
                                                              esc[:6], esc[6:], esc[:6] + "x" + esc[6:], esc[:6] + "\\n" + esc[6:]])
    return t[:pos] + cut + t[pos:]


@mutator("unterminated")
def _m_unterminated(r, t, sp):
    s = _pick(r, sp, ("str", "]", "}"))
    if not s:
        return None
    return t[:s[2] - 1] + t[s[2]:]


@mutator("truncate")
def _m_truncate(r, t, sp):
    if len(t) < 2:
        return None
    return t[:r.range(0, len(t) - 1)]


@mutator("delete-char")
def _m_delete(r, t, sp):
    if not t:
        return None
    p = r.below(len(t))
    return t[:p] + t[p + 1:]


@mutator("duplicate-char")
def _m_dup(r, t, sp):
    if not t:
        return None
    p = r.below(len(t))
    return t[:p] + t[p] + t[p:]


@mutator("swap-chars")
def _m_swap(r, t, sp):
    if len(t) < 2:
        return None
    p = r.below(len(t) - 1)
    return t[:p] + t[p + 1] + t[p] + t[p + 2:]


ALPHABET = list('[]{}:,"\\/-+.eE0123456789tfnul \t\n\r') + ["\x00", "\x0b", "\x0c", "\x1f", "\x7f", "\xa0", "\u2028", "\ufeff", "'", "`", "(", ")",
                                                           ";", "=", "*", "#", "<", "_", "x", "a", "\u00e9", "\ud83d", "\ude00", "\uffff"]


@mutator("replace-char")
def _m_replace(r, t, sp):
    if not t:
        return None
    p = r.below(len(t))
    return t[:p] + r.choice(ALPHABET) + t[p + 1:]


@mutator("insert-char")
def _m_insert(r, t, sp):
    p = r.below(len(t) + 1)
    return t[:p] + r.choice(ALPHABET) + t[p:]


@mutator("bracket-mismatch")
def _m_bracket(r, t, sp):
    s = _pick(r, sp, ("[", "]", "{", "}"))
    if not s:
        return None
    return t[:s[1]] + r.choice(["[", "]", "{", "}", "(", ")", "<", ""]) + t[s[2]:]


@mutator("second-value")
def _m_second(r, t, sp):
    return t + r.choice([" 1", "1", ",", ",1", " null", "[]", "{}", '""', ";", ")", "//", "\x00", ":"])


@mutator("wrap-js")
def _m_wrapjs(r, t, sp):
    w = r.choice(["(%s)", "%s;", "(%s);", "%s);(%s", "[%s][0]", "%s,%s", "%s||1", "-%s", "+%s", "!%s", "void %s", "%s//", "%s/**/", "0,%s",
                  "new Object(%s)", "%s.x", "%s?.x", "`${%s}`", "{a:%s}", "{\"a\":%s}.a", "[...%s]", "[%s,]", "{\"a\":%s,}", "eval(%s)"])
    return w.replace("%s", t)


@mutator("splice-injection")
def _m_splice(r, t, sp):
    s = _pick(r, sp, ("num", "word", "str"))
    inj = r.choice(INJECTION_TEXTS)
    if not s:
        return inj
    return t[:s[1]] + inj + t[s[2]:]


def mutate(r, text):
    """returns (mutant text, mutator name). The mutant is usually invalid but need not be."""
    sp = _token_spans(text)
    for _ in range(8):
        name, f = r.choice(MUTATORS)
        m = f(r, text, sp)
        if m is not None and m != text:
            return m, name
    return text + ",", "trailing-garbage"


def depth_probe(r, depth):
    """valid texts nested `depth` deep; list of (text, shape)"""
    return [
        ("[" * depth + "]" * depth, "arrays"),
        ("[" * depth + "1" + "]" * depth, "arrays-leaf"),
        ('{"a":' * depth + "null" + "}" * depth, "objects"),
        ('[{"a":' * (depth // 2) + ("[" if depth % 2 else "") + "0" + ("]" if depth % 2 else "") + "}]" * (depth // 2), "mixed"),
    ]
