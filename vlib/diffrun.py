"""Shared machinery of the differential checks: jobs, engines, comparison, confirmation, reduction."""
import json

from . import build, reduce as reducer, runner

# shapes the main stream never generates, with the reason (see DESIGN.md, appendix A / known findings)
AVOID_V8 = {
    "fn_to_string",             # boa has no source text for Function.prototype.toString (implementation limitation, outside C01's fragment)
    "v8_accessor_spread_order", # V8 defines accessors of an object literal with a spread after its data properties (deviates from 13.2.5.5)
    "stmt_completion_value",    # open finding K8 (`10; L: { break L; }`): programs end in an expression statement
    "v8_double_key_coercion",   # V8 runs ToPropertyKey twice for `o[k]++` and `o[k] op= v` (load and store); ECMA-262 GetValue coerces once and keeps the key
    "error_to_string",          # String(error) exposes message text, which is implementation-defined
    "logical_assign_nonlexical",  # open finding C03-K1: short-circuit logical assignment to a var/parameter/global leaves a reference behind
}


def job(src, cfg=None, origin="bytes", entry="eval", gc=None, opt=None, limits=None, jid=None, extra_steps=None):
    steps = [{"op": "eval", "src": src, "origin": origin}]
    if entry == "call_main":
        steps.append({"op": "call", "name": "__main"})
    elif entry == "construct_main":
        steps.append({"op": "construct", "name": "__main"})
    if extra_steps:
        steps += extra_steps
    steps.append({"op": "jobs"})
    j = {"id": jid, "steps": steps}
    if cfg:
        j["cfg"] = cfg
    if gc:
        j["gc"] = gc
    if opt is not None:
        j["opt"] = opt
    if limits:
        j["limits"] = limits
    return j


def record(res):
    """the comparable part of a result: (fatal, completions, trace)"""
    if res is None:
        return ("missing", None, None)
    if res.get("fatal"):
        return (str(res["fatal"]), None, None)
    return (None, [s["c"] for s in res.get("steps", [])], res.get("trace"))


def classify(res):
    """'ok' | 'inconclusive:<why>' | 'internal:<what>' for a boa result"""
    f = res.get("fatal") if res else "missing"
    if f:
        f = str(f)
        if f.startswith("panic:") or f.startswith("died:"):
            return "internal:" + f
        return "inconclusive:" + f
    for s in res.get("steps", []):
        c = s["c"]
        if c.startswith("enginepanic"):
            return "internal:" + c
        if c.startswith("inconclusive"):
            return c
    return "ok"


def node_usable(res):
    if res is None or res.get("fatal"):
        return False
    return not any(s["c"].startswith("inconclusive") for s in res.get("steps", []))


def same(boa_res, node_res, steps_map=None):
    """compares a boa record with a node record. steps_map: list of (boa_step_index, node_step_index) to compare;
    default: all steps pairwise."""
    fb, cb, tb = record(boa_res)
    fn, cn, tn = record(node_res)
    if fb or fn:
        return False
    if steps_map is None:
        if cb != cn:
            return False
    else:
        for bi, ni in steps_map:
            if bi >= len(cb) or ni >= len(cn) or cb[bi] != cn[ni]:
                return False
    return tb == tn


def describe(boa_res, node_res):
    fb, cb, tb = record(boa_res)
    fn, cn, tn = record(node_res)
    out = []
    if fb:
        out.append("boa: %s" % fb)
    if cb != cn:
        out.append("completion boa=%s ref=%s" % (cb, cn))
    if tb != tn and tb is not None and tn is not None:
        k = 0
        while k < min(len(tb), len(tn)) and tb[k] == tn[k]:
            k += 1
        out.append("trace differs at line %d: boa=%r ref=%r (lengths %d/%d)" % (
            k, tb[k] if k < len(tb) else None, tn[k] if k < len(tn) else None, len(tb), len(tn)))
    return "; ".join(out)[:700]


class Engines:
    def __init__(self, flavour="native", node=True, tag="diff"):
        self.binary = build.ensure("bvh", flavour)
        self.pool = runner.NodePool(8) if node and runner.node_available() else None
        self.tag = tag

    def boa(self, jobs, shards=None, timeout=20, env=None):
        return runner.run_bvh(self.binary, "session", jobs, self.tag, shards=shards, timeout=timeout, env=env)

    def node(self, jobs):
        if not self.pool:
            return [{"fatal": "node-unavailable"} for _ in jobs]
        return self.pool.run(jobs)

    def close(self):
        if self.pool:
            self.pool.close()
            self.pool = None

    # ------------------------------------------------------------ reduction
    def reduce_vs_node(self, src, make_boa_job, make_node_job=None, steps_map=None, max_rounds=150):
        """smallest source on which boa (job built by make_boa_job) still differs from V8 *in the same way*
        (internal failure / trace difference / completion-only difference)"""
        make_node_job = make_node_job or (lambda s: job(s))

        def kind_of(x, y):
            cl = classify(x)
            if cl.startswith("internal"):
                return "internal"
            if cl != "ok":
                return None
            if same(x, y, steps_map):
                return None
            if record(x)[2] != record(y)[2]:
                return "trace"
            # a completion-only difference keeps its shape while it is reduced (which step differs, value/throw/early
            # and the error class on both sides; for value-against-value the values themselves): otherwise the reducer
            # slides from the difference that was found into an unrelated one, e.g. into an open known finding
            def cat(c):
                return c if c.startswith(("throw:", "early", "limit")) else c.split(":")[0]
            sig = []
            for a, b in zip(record(x)[1] or [], record(y)[1] or []):
                if a != b:
                    sig.append((cat(a), cat(b)) if (cat(a), cat(b)) != ("value", "value") else (a, b))
            return "completion:" + repr(sig)
        x0 = self.boa([make_boa_job(src)], shards=1, timeout=10)[0]
        y0 = self.node([make_node_job(src)])[0]
        want = kind_of(x0, y0)

        def batch(srcs):
            bj = [make_boa_job(s) for s in srcs]
            nj = [make_node_job(s) for s in srcs]
            rb = self.boa(bj, shards=min(16, max(1, len(bj) // 8)), timeout=10)
            rn = self.node(nj)
            out = []
            for x, y in zip(rb, rn):
                if not node_usable(y) or any(s["c"].startswith("early") for s in y["steps"]):
                    out.append(False)
                    continue
                k = kind_of(x, y)
                out.append(k is not None and (want is None or k == want))
            return out
        return reducer.reduce(src, batch, max_rounds=max_rounds)

    def reduce_twin(self, src, make_job_a, make_job_b, max_rounds=150):
        """smallest source on which boa under configuration A differs from boa under configuration B"""
        def batch(srcs):
            ja = [make_job_a(s) for s in srcs]
            jb = [make_job_b(s) for s in srcs]
            r = self.boa(ja + jb, shards=min(16, max(1, len(ja) // 4)), timeout=10)
            ra, rb = r[:len(ja)], r[len(ja):]
            out = []
            for x, y in zip(ra, rb):
                cx, cy = classify(x), classify(y)
                if cx.startswith("internal") or cy.startswith("internal"):
                    out.append(cx != cy)
                    continue
                if cx != "ok" or cy != "ok":
                    out.append(False)
                    continue
                out.append(record(x) != record(y))
            return out
        return reducer.reduce(src, batch, max_rounds=max_rounds)
