"""Mutators and corpora for the robustness checks (C02, C19)."""
import glob
import os
import re

from . import reduce as reducer

TOKEN_DICT = [
    "(", ")", "[", "]", "{", "}", ";", ",", ".", "...", "?.", "??", "??=", "=>", "=", "==", "===", "+", "-", "*", "**", "/", "%", "++", "--", "<<", ">>>", "&&=", "||=",
    "`", "${", "'", '"', "\\", "/*", "*/", "//", "#", "@", "0", "1", "0x", "0b1", "0o7", "1_000", "1e", "1e400", ".5", "5.", "1n", "0n", "08", "0.1e-5", "\\u0061", "\\u{61}", "\\u{110000}",
    "var", "let", "const", "function", "function*", "async", "await", "yield", "yield*", "class", "extends", "super", "new", "new.target", "this", "return", "if", "else", "for", "while", "do",
    "switch", "case", "default", "break", "continue", "try", "catch", "finally", "throw", "typeof", "void", "delete", "in", "of", "instanceof", "with", "debugger", "import", "export", "static",
    "get", "set", "null", "undefined", "true", "false", "NaN", "Infinity", "arguments", "eval", "constructor", "prototype", "__proto__", "#priv", "label:", "/re/g", "/[/]/", "/(?<n>a)\\k<n>/u",
    "`a${b}c`", "`${`${1}`}`", "a?.b", "a?.[0]", "a?.()", "x => x", "async x => x", "({})", "[]", "[,]", "{a, ...b}", "[a = 1] = []", " ", " ", "﻿", " ", "\x00", "\r\n",
    "'use strict';", "0 ? 1 : 2", "a ??= b", "class A { static { } #x = 1; get #y() {} }", "for (let [a] of b)", "for await (x of y)", "import.meta", "import('x')", "<!--", "-->",
]


def harvest_repo_snippets(limit=4000):
    """JavaScript snippets embedded as string literals in the repository's own Rust tests"""
    out = []
    seen = set()
    files = sorted(glob.glob("/repo/core/engine/src/**/tests.rs", recursive=True) + glob.glob("/repo/core/engine/src/**/tests/*.rs", recursive=True) +
                   glob.glob("/repo/core/parser/src/**/tests.rs", recursive=True) + glob.glob("/repo/core/parser/src/**/tests/*.rs", recursive=True))
    pat = re.compile(r'(?:indoc!\s*\{\s*)?r#*"(.*?)"#*', re.S)
    pat2 = re.compile(r'"((?:[^"\\\n]|\\.){8,400})"')
    for f in files:
        try:
            text = open(f, encoding="utf8", errors="replace").read()
        except OSError:
            continue
        for m in list(pat.finditer(text)) + list(pat2.finditer(text)):
            s = m.group(1)
            if len(s) < 6 or len(s) > 3000:
                continue
            if not any(c in s for c in "=;({["):
                continue
            s = s.replace('\\"', '"').replace("\\n", "\n").replace("\\\\", "\\")
            if s in seen:
                continue
            seen.add(s)
            out.append(s)
            if len(out) >= limit:
                return out
    return out


def nesting(text):
    """maximum bracket nesting of a text (C02's quantifier: syntactic nesting <= 64)"""
    depth = best = 0
    for ch in text:
        if ch in "([{":
            depth += 1
            best = max(best, depth)
        elif ch in ")]}":
            depth = max(0, depth - 1)
    return best


def byte_mutant(rng, data):
    """data: bytes -> bytes"""
    b = bytearray(data)
    for _ in range(1 + rng.below(4)):
        k = rng.below(9)
        pos = rng.below(len(b) + 1)
        if k == 0 and b:
            b[rng.below(len(b))] ^= 1 << rng.below(8)
        elif k == 1 and b:
            del b[rng.below(len(b))]
        elif k == 2:
            b.insert(pos, rng.below(256))
        elif k == 3 and len(b) > 4:
            a, c = sorted((rng.below(len(b)), rng.below(len(b))))
            b[pos:pos] = b[a:c][:200]
        elif k == 4:
            b[pos:pos] = rng.choice([b"\xef\xbb\xbf", b"\xe2\x80\xa8", b"\xe2\x80\xa9", b"\x00", b"\xc0\x80", b"\xed\xa0\x80", b"\xf4\x90\x80\x80", b"\xff", b"\xc3", b"\r", b"\\u", b"\\u{"])
        elif k == 5 and len(b) > 2:
            a, c = sorted((rng.below(len(b)), rng.below(len(b))))
            del b[a:c]
        elif k == 6:
            tok = rng.choice(TOKEN_DICT).encode("utf8")
            b[pos:pos] = tok
        elif k == 7 and b:
            i = rng.below(len(b))
            b[i] = rng.choice(b"(){}[];,.`'\"\\/*+-=<>!&|?:#@0")
        else:
            b[pos:pos] = bytes([rng.choice([0x80, 0xbf, 0xc2, 0xe0, 0xf0, 0xfe])])
    return bytes(b)


def token_mutant(rng, src):
    toks = reducer.tokenize(src)
    if not toks:
        return rng.choice(TOKEN_DICT)
    for _ in range(1 + rng.below(3)):
        k = rng.below(6)
        i = rng.below(len(toks))
        if k == 0:
            del toks[i]
        elif k == 1:
            toks.insert(i, toks[i])
        elif k == 2 and len(toks) > 1:
            j = rng.below(len(toks))
            toks[i], toks[j] = toks[j], toks[i]
        elif k == 3:
            toks[i] = rng.choice(TOKEN_DICT)
        elif k == 4:
            toks.insert(i, rng.choice(TOKEN_DICT))
        else:
            a, c = sorted((i, rng.below(len(toks))))
            del toks[a:min(c, a + 12)]
        if not toks:
            toks = [rng.choice(TOKEN_DICT)]
    return reducer.join(toks)


def random_bytes(rng, n):
    kind = rng.below(4)
    if kind == 0:
        return bytes(rng.below(256) for _ in range(n))
    if kind == 1:
        return bytes(rng.choice(b" \n\t(){}[];,.=+-*/<>!&|?:'\"`\\abcxyz0123456789_$#@") for _ in range(n))
    if kind == 2:
        return " ".join(rng.choice(TOKEN_DICT) for _ in range(max(1, n // 4))).encode("utf8")
    return "".join(chr(rng.choice([rng.range(0x20, 0x7e), rng.range(0xa0, 0x2ff), rng.range(0x2000, 0x206f), rng.range(0xd800, 0xdfff), rng.range(0x1f600, 0x1f64f)])) for _ in range(n)).encode("utf8", "surrogatepass")
