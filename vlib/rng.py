"""Deterministic SplitMix64 stream; every random choice in the framework derives from VERIF_SEED."""
import hashlib

MASK = (1 << 64) - 1


class Rng:
    def __init__(self, seed, *labels):
        h = hashlib.sha256(("%d|" % seed + "|".join(str(l) for l in labels)).encode()).digest()
        self.s = int.from_bytes(h[:8], "little")

    def next(self):
        self.s = (self.s + 0x9E3779B97F4A7C15) & MASK
        z = self.s
        z = ((z ^ (z >> 30)) * 0xBF58476D1CE4E5B9) & MASK
        z = ((z ^ (z >> 27)) * 0x94D049BB133111EB) & MASK
        return z ^ (z >> 31)

    def below(self, n):
        return self.next() % n if n > 0 else 0

    def range(self, a, b):
        """inclusive"""
        return a + self.below(b - a + 1)

    def chance(self, p):
        return self.next() / 2.0**64 < p

    def choice(self, xs):
        return xs[self.below(len(xs))]

    def weighted(self, pairs):
        tot = sum(w for _, w in pairs)
        r = self.next() / 2.0**64 * tot
        acc = 0
        for x, w in pairs:
            acc += w
            if r < acc:
                return x
        return pairs[-1][0]

    def shuffle(self, xs):
        xs = list(xs)
        for i in range(len(xs) - 1, 0, -1):
            j = self.below(i + 1)
            xs[i], xs[j] = xs[j], xs[i]
        return xs

    def sample(self, xs, k):
        return self.shuffle(xs)[:k]

    def fork(self, *labels):
        return Rng(self.next(), *labels)
